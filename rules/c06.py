"""C06 the encoder emits exactly the specified octets (up to the trusted semantics of
to_be_bytes / extend_from_slice / push): the encoders are straight-line token emitters, so their
token layout is their output.

1. per AVP kind and presence partition: payload layout == spec/avp_formats.json
2. AVP::write: placeholder(2) . vendor id 0 . payload . back-patch (length/flag bits are C07)
3. ControlMessage: flag word, header field order, AVPs in vector order
4. DataMessage: flag word per presence configuration, optional fields in RFC order"""
import json
import os
from rules.common import *
from lenflow import State
from framework import VERIF
import layout
from rules.c04 import writer_paths


def load(name):
    return json.load(open(os.path.join(VERIF, "spec", name)))


def match_items(got, want):
    """canonical writer items vs spec items"""
    if len(got) != len(want):
        return False
    for g, w in zip(got, want):
        if w[0] == "enum":
            if not ((g[0] == "enum" and g[1:] == w[1:]) or (g[0] == "const" and g[1] == w[1])):
                return False
        elif w[0] == "rest":
            if not (g[0] == "rest" and g[1] == w[1]):
                return False
        elif tuple(g) != tuple(w):
            return False
    return True


def flag_word(hs, T, L, S, O, P):
    f = hs["flags"]
    v = f["version"] << f["version_shift"]
    for name, on in (("T", T), ("L", L), ("S", S), ("O", O), ("P", P)):
        if on:
            v |= 1 << f[name]
    return v


def avp_order_check(chk, fx, a, config):
    # AVPs in vector order: in every loop iteration AVP::write is applied to element t of self.avps, where t is the
    # ascending loop counter (slice iterator position or index variable)
    eng2 = new_engine(chk, fx)
    seen = {"iters": [], "recv": []}

    def own(frame):
        # ControlMessage::write itself, or a closure / std iterator consumer (for_each, fold) it runs
        parts = frame.ctxname.split(" > ")
        return frame.key == a.ctrl_write["key"] or (parts[0] == a.ctrl_write["name"] and not any("AVP::write" in p for p in parts[1:]))

    def on_call(frame, st, bb, func, args):
        if (func.get("resolved") or func)["key"] == a.avp_write["key"] and own(frame) and not eng2.mute:
            r = args[0]
            seen["recv"].append((st.ntrace, r.cell, r.path[-1] if isinstance(r, VRef) and r.path else None))

    def on_loop(frame, head, H, res, havoc, lid):
        if eng2.mute or not own(frame):
            return
        for b in res["back"]:
            evs = b.events()[H.ntrace:]
            # (the loop's own counter: iterations of loops inside the AVP encoders do not count)
            rn = [e for e in evs if e[0] == "range_next" and not any("AVP::write" in p_ for p_ in str(e[3].get("ctx", "")).split(" > ")[1:])]
            calls = [r for r in seen["recv"] if r[0] >= H.ntrace]
            if not rn and calls and isinstance(calls[-1][2], tuple) and calls[-1][2][0] == "ei":
                # no iterator: the element index is a running position of the loop's own (a slice peeled from the front, a
                # hand-kept counter) - it must start at 0 and move up by one per round
                idx = calls[-1][2][1]
                leaves = {eng2.hsym(lid, c_, kp_): (c_, kp_) for (c_, kp_), k_ in havoc.items() if k_ == "int"}
                hs = [s_ for s_ in idx.t if s_ in leaves]
                if len(hs) == 1 and idx.t[hs[0]] == 1:
                    leaf = leaves[hs[0]]
                    e0 = eng2._entry.get((lid, leaf))
                    nb = eng2.leaf_lin(b, *leaf)
                    if e0 is not None and nb is not None and eng2.ent(H, c_eq(idx - Lin.sym(hs[0]) + e0, Lin.const(0))) \
                            and eng2.ent(b, c_eq(nb, Lin.sym(hs[0]) + 1)):
                        seen["iters"].append((False, idx, calls[-1], b))
                        continue
            seen["iters"].append((rn[-1][1] if rn else None, rn[-1][2].lin if rn else None, calls[-1] if calls else None, b))
    eng2.hooks["loop"] = on_loop
    eng2.hooks["call"] = on_call
    eng2.analyse(a.ctrl_write["key"], name="ControlMessage::write(order)[%s]" % config)
    ok = bool(seen["iters"])
    for back, item, call, b in seen["iters"]:
        if back is not False or item is None or call is None or call[1] != ("obj", "self.*.avps") or call[2] is None:
            ok = False
            continue
        idx = call[2][1] if call[2][0] == "ei" else Lin.const(call[2][1])
        if not eng2.ent(b, c_eq(idx, item)):
            ok = False
    chk.oblig(ok, "avp-order | ControlMessage::write", "AVPs are not emitted by one forward pass over self.avps",
              {"rule": "AVPs in vector order", "iterations": [(x[0], repr(x[1]), repr(x[2])) for x in seen["iters"]][:3]},
              {"obligation": "each loop iteration AVP::writes element t of self.avps, t the ascending loop counter"})


def run_config(chk, config):
    fx = chk.facts(config)
    a = Anchors(chk, fx)
    if not (a.need("avp_write", "msg_write", "ctrl_write", "data_write") and a.need_floors()):
        return
    spec = load("avp_formats.json")
    hs = load("headers.json")
    # ---- 1. payload layouts
    for vname, wf in sorted(a.payload_writers.items()):
        eng = new_engine(chk, fx)
        rets = eng.analyse(wf["key"], name="%s::write[%s]" % (vname, config))
        record_engine(chk, eng, "%s::write [%s]: %d paths" % (vname, config, len(rets)))
        got = [layout.canon_writer(eng, s, layout.wtokens(eng, s)) for s, _ in rets]
        if vname == "Hidden":
            want = [[("int", 2, "attribute_type"), ("rest", "value", False)]]
            wants = [w for w in want]
            ok = all(any(match_items(g, w) for w in wants) for g in got) and bool(got)
            chk.oblig(ok, "payload | Hidden", "Hidden AVP payload layout is %s, expected attribute type then the value" % got,
                      {"got": got}, {"obligation": "Hidden: clear attribute type(2) then the hidden octets", "layout": got[:1]})
            continue
        sp = spec.get(vname)
        if not chk.require_anchor(sp is not None, "spec entry for %s" % vname):
            continue
        wants = [[("const", 2, sp["type"])] + seq for seq, pres in layout.spec_sequences(sp["items"])]
        missing = [w for w in wants if not any(match_items(g, w) for g in got)]
        extra = [g for g in got if not any(match_items(g, w) for w in wants)]
        chk.oblig(not missing and not extra, "payload | %s" % vname,
                  "%s encoder layout differs from RFC 2661: emits %s; specified %s" % (vname, extra or got, missing or wants),
                  {"rule": "attribute type then the fields in specified order/width, reserved octets zero", "encoder_layouts": got,
                   "spec_layouts": wants, "unmatched_spec": missing, "unspecified_encoder": extra},
                  {"obligation": "%s: every presence partition of the encoder equals the specified layout" % vname, "layouts": got[:3]})
    # ---- 2. AVP::write framing
    eng = new_engine(chk, fx)
    rets = eng.analyse(a.avp_write["key"], name="AVP::write[%s]" % config)
    record_engine(chk, eng, "AVP::write [%s]: %d paths" % (config, len(rets)))
    bad = []
    for s, _ in rets:
        c = layout.canon_writer(eng, s, layout.wtokens(eng, s))
        if c and c[0] == ("zero", 4) and hs["avp_header"]["vendor_id"] == 0:
            # placeholder and the all-zero vendor id emitted as one run of four zero octets
            c = [("zero", 2), ("const", 2, 0)] + list(c[1:])
        ok = len(c) >= 4 and c[0] == ("zero", 2) and c[1] == ("const", 2, hs["avp_header"]["vendor_id"]) and c[-1] == ("patch",) \
            and (c[2][0] in ("const", "int")) and c[2][1] == 2 and sum(1 for x in c if x == ("patch",)) == 1
        # ("zero",2),("const",2,0) may merge when the placeholder and a zero vendor id are adjacent zeros
        if not ok and len(c) >= 3 and c[0] == ("zero", 2) and c[1][0] == "const" and c[1][1:] == (2, 0):
            ok = True
        if not ok:
            bad.append(c[:4])
    chk.oblig(not bad and len(rets) >= 40, "avp-header | AVP::write",
              "AVP::write does not emit placeholder(2), vendor id 0 (2), payload, one back-patch: %s" % bad[:2],
              {"rule": "flags+length(2) . vendor id 0 . attribute type . value", "bad": bad[:4]},
              {"obligation": "AVP::write framing: 2 patched octets, vendor id 0, payload", "paths": len(rets)})
    # ---- 3. control message
    engw, wpaths = writer_paths(chk, fx, a, "Control")
    chk.require_anchor(len(wpaths) >= 1, "Message::write(Control) has a returning path")
    for s, wt in wpaths:
        c = layout.canon_writer(engw, s, [t for t in wt if own_site(t["site"])],
                                "self.*.Control.0")
        want = [("const", 2, flag_word(hs, True, True, True, False, False)), ("zero", 2), ("int", 2, "tunnel_id"), ("int", 2, "session_id"),
                ("int", 2, "ns"), ("int", 2, "nr"), ("patch",)]
        chk.oblig(c == want, "control-header | ControlMessage::write",
                  "control header emitted as %s, specified %s" % (c, want),
                  {"rule": "flag word T,L,S set, O,P clear, version 2, reserved 0; then Length, Tunnel ID, Session ID, Ns, Nr", "got": c, "spec": want},
                  {"obligation": "control header layout and flag word", "layout": c})
        # AVPs in vector order: one forward slice iterator over self.avps feeds AVP::write
        its = [e for e in s.events() if e[0] == "iter_next"]
    avp_order_check(chk, fx, a, config)
    # ---- 4. data message flag word per configuration (field order is checked against the decoder in C04 and here against RFC order)
    engd, dpaths = writer_paths(chk, fx, a, "Data")
    chk.require_anchor(len(dpaths) >= 16, "16 data configurations (found %d)" % len(dpaths))
    for s, wt in dpaths:
        c = layout.canon_writer(engd, s, wt, "self.*.Data.0")
        names = [x[2] for x in c if x[0] == "int"]
        L, S, O = "length" in names, "ns_nr.0" in names, "offset" in names
        P = bool(s.bitfacts.get(("self.*.Data.0.is_prioritized", 0)))
        want = [("const", 2, flag_word(hs, False, L, S, O, P))]
        if L:
            want.append(("int", 2, "length"))
        want += [("int", 2, "tunnel_id"), ("int", 2, "session_id")]
        if S:
            want += [("int", 2, "ns_nr.0"), ("int", 2, "ns_nr.1")]
        if O:
            want.append(("int", 2, "offset"))
        want.append(("rest", "data"))
        cname = "".join(k for k, v in zip("LSOP", (L, S, O, P)) if v) or "-"
        chk.oblig(c == want, "data-layout | DataMessage::write | %s" % cname,
                  "data message (%s) emitted as %s, specified %s" % (cname, c, want),
                  {"rule": "flag word from field presence and priority, version 2; optional fields in RFC order; payload last", "got": c, "spec": want},
                  {"obligation": "data message layout and flag word in configuration %s" % cname, "layout": c})


def run(chk):
    run_config(chk, "default")
    # "exactly the specified octets" includes the back-patched length fields and the AVP flag bits (C07's obligations)
    import rules.c07 as c07
    c07.run_config(chk, "default")
    # "the assigned numbers": encode-side code tables and constructor bit assignments (C16, C17)
    from framework import Sub
    import rules.c16 as c16
    import rules.c17 as c17
    Sub(chk, "via C16 | ", lambda k: " encode" in k).borrow(c16, "default", 6, "encode-side code tables")
    Sub(chk, "via C17 | ", lambda k: k.startswith(("ctor-shape", "spec-bit", "wire"))).borrow(c17, "default", 12, "capability/type bit assignments")
    if chk.tier == "thorough":
        for cfg in ("debug", "release"):
            run_config(chk, cfg)
    return chk.finish(
        "proof",
        explanation="Token layouts (width, order, constant or field provenance) of every encoder path equal the independent spec "
                    "tables; length fields and AVP flag bits are C07, big-endian/appending is the Writer contract (C18).",
        assumptions=["spec/avp_formats.json and spec/headers.json are the reading of RFC 2661 (crate bit numbering, Random Vector 4 octets)",
                     "to_be_bytes / extend_from_slice / push semantics (std)"])
