"""C02 the decoder never reads outside its input, whatever reader backs it.

Clause 1: every call of a Reader trait method issued by crate code (decode entry points, every
payload decoder standalone, reveal) has its contract precondition proven at the call site, and
every unsafe-pre obligation (unwrap_unchecked / get_unchecked) in those functions is proven.
Clause 2 (parametricity): generic code observes its reader only through the trait -- checked
structurally: no reflection / transmute / type-dependent callee reachable from the decoders."""
from rules.common import *
from rules.c01 import decode_entries
from effects import classify_external

KINDS = ("reader-pre", "unsafe-pre")


def run_config(chk, config):
    fx = chk.facts(config)
    a = Anchors(chk, fx)
    if not (a.need("msg_try_read_validate", "avp_greedy", "avp_reveal", "decode_avp", "header_try_read") and a.need_floors()):
        return
    entries = [e for e in decode_entries(a) if e[0] != "Message::try_read"] + [("AVP::reveal", a.avp_reveal)]
    sites = 0
    for name, f in entries:
        eng = new_engine(chk, fx)
        rets = eng.analyse(f["key"], name="%s[%s]" % (name, config))
        record_engine(chk, eng, "%s [%s]: %d return paths" % (name, config, len(rets)))
        sites += chk.add_engine_obligs(eng, KINDS, "C02 reader request inside the remaining octets")
    # floor: the Reader trait has 9 methods, 7 of which carry a precondition; the codec issues
    # at least one guarded request per payload decoder
    chk.require_anchor(sites >= 40, "at least 40 precondition-bearing reader call sites analysed (found %d) [%s]" % (sites, config))
    tr = fx.traits.get("common::reader::Reader")
    chk.require_anchor(tr is not None and len([i for i in tr["items"] if i["kind"] == "AssocFn"]) >= 9, "Reader trait with 9 methods")
    # clause 2: structural parametricity check
    cg = callgraph(fx)
    reach = cg.reachable([f["key"] for _, f in entries])
    hits = []
    for k in sorted(reach):
        for name, ln, exp in cg.ext_calls.get(k, []):
            if "reflect" in classify_external(name):
                hits.append((k, name, ln))
    chk.oblig(not hits, "parametricity | decode closure",
              "decoder inspects type identity / transmutes (result may depend on the reader implementation): %s" % (hits[:2],),
              {"rule": "generic decode code observes the reader only through the Reader trait", "hits": hits[:5]},
              {"obligation": "no Any/type_id/size_of_val/transmute callee in the decode closure", "functions": len(reach)})


def run(chk):
    run_config(chk, "default")
    if chk.tier == "thorough":
        for cfg in ("debug", "release"):
            run_config(chk, cfg)
    return chk.finish(
        "proof",
        explanation="Assume-guarantee: callers are checked against the Reader contract here (every unchecked read, skip and "
                    "sub-range request proven to lie within what remains; payload decoders are confined to their sub-reader); "
                    "SliceReader is checked to satisfy the same contract under C18. Clause 2 (same result for every conforming "
                    "reader) follows from parametricity plus the structural no-reflection check; it is an argument, not an "
                    "enumeration of readers.",
        assumptions=["Reader contract table in lib/stubs.py", "results across non-conforming readers not decided"])
