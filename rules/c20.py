"""C20 decode errors identify the offending field and render with the right AVP name.

* name table vs dispatch: avp_name(k) is the variant name decode_avp(k) builds, same key set; the
  default arm (unassigned numbers only) formats the number
* own attribute type: every IncompleteAVP / InvalidUtf8 / AVPReadError produced while decoding
  attribute type k carries k
* offending value: the payload of InvalidVersion, UnknownAvp, UnknownMessageType,
  UnsupportedVendorId, InvalidOffset, InvalidResultCodeErrorType, InvalidAVPLength,
  InvalidOriginalAVPLength is the very value whose test selected that error path
* rendering: Display has one total arm per variant, each writes text; AVP-related errors render
  avp_name(their own payload)"""
from rules.common import *
from lenflow import State
import layout
import tables

AVP_ERRS = ("IncompleteAVP", "InvalidUtf8", "AVPReadError")
KINDS = ("arith", "bounds", "unwrap", "unsafe-pre", "panic-reach", "rank")


def err_items(eng, st, v):
    """DecodeError values inside a returned Err (single or list)"""
    vi, p = result_parts(v)
    if vi != 1:
        return []
    if isinstance(p, VAdt):
        return [p]
    if isinstance(p, VRef):
        vv = st.cells.get(p.cell)
        if isinstance(vv, VVec) and vv.elems:
            return [e for e in vv.elems if isinstance(e, VAdt)]
    return []


def be16_of_buffer(eng, lin):
    """lin == 256*buf[0] + buf[1] for one buffer (a length field read by indexing instead of through a reader)"""
    es = getattr(eng, "elem_syms", {})
    items = sorted(lin.t.items(), key=lambda kv: -kv[1])
    if len(items) != 2 or lin.c != 0 or [v for _, v in items] != [256, 1]:
        return False
    a_, b_ = es.get(items[0][0]), es.get(items[1][0])
    return bool(a_ and b_ and a_[0] == b_[0] and a_[1] == Lin.const(0) and b_[1] == Lin.const(1))


def field0(e):
    fs = e.variants.get(e.vidx.c, ()) if e.vidx.is_const() else ()
    return fs[0] if fs else None


def run_config(chk, config):
    fx = chk.facts(config)
    a = Anchors(chk, fx)
    if not (a.need("avp_name", "decode_avp", "msg_try_read_validate", "avp_greedy", "avp_reveal") and a.need_floors()):
        return
    # ---- dispatch table
    eng = new_engine(chk, fx)
    st = State()
    at = eng.named_int(eng.u16_ty(), "attribute_type", bits_sym=True)
    rets = eng.analyse(a.decode_avp["key"], args=[at, None], state=st, name="decode_avp[%s]" % config)
    record_engine(chk, eng, "decode_avp [%s]: %d paths" % (config, len(rets)))
    disp = {}
    own_bad = []
    n_own = 0
    for s, v in rets:
        vi, payload = result_parts(v)
        k = tables.pinned(eng, s, at.lin)
        if vi == 0:
            nm = tables.variant_name(eng, payload)
            if nm is not None and k is not None:
                disp[k] = nm
        else:
            for e in err_items(eng, s, v):
                nm = tables.variant_name(eng, e)
                if nm in AVP_ERRS:
                    n_own += 1
                    c = field0(e)
                    if not (isinstance(c, VInt) and k is not None and eng.ent(s, c_eq(c.lin, Lin.const(k)))):
                        own_bad.append("%s(%r) produced while decoding attribute type %s" % (nm, getattr(c, "lin", None), k))
    chk.oblig(not own_bad and n_own >= 38, "own-type | decode_avp",
              "an AVP error names another attribute type than the one being decoded: %s" % own_bad[:3],
              {"rule": "IncompleteAVP/InvalidUtf8/AVPReadError carry the attribute type of the AVP that failed", "problems": own_bad[:8]},
              {"obligation": "each of the %d AVP-error paths of decode_avp carries its own attribute type" % n_own})
    # ---- name table
    eng = new_engine(chk, fx)
    st = State()
    x = eng.named_int(eng.u16_ty(), "n", bits_sym=True)
    rets = eng.analyse(a.avp_name["key"], args=[x], state=st, name="avp_name[%s]" % config)
    record_engine(chk, eng, "avp_name [%s]: %d paths" % (config, len(rets)))
    chk.add_engine_obligs(eng, KINDS, "C20 avp_name is total")
    names = {}
    default_ok = True
    n_default = 0
    for s, v in rets:
        k = tables.pinned(eng, s, x.lin)
        txt = None
        if isinstance(v, VRef):
            vv = s.cells.get(v.cell)
            if isinstance(vv, VVec) and vv.segs and len(vv.segs) == 1 and vv.segs[0][1][0] == "const":
                txt = bytes(vv.segs[0][1][1]).decode("utf8", "replace")
        if k is not None and txt is not None:
            names[k] = txt
        else:
            n_default += 1
            # the number-formatting arm must exclude every assigned number
            for kk in disp:
                if not eng.ent(s, (x.lin - kk, "ne")):
                    default_ok = False
    diff = {"missing_names": {k: v for k, v in disp.items() if k not in names},
            "extra_names": {k: v for k, v in names.items() if k not in disp},
            "wrong": {k: (names[k], disp[k]) for k in names if k in disp and names[k] != disp[k]}}
    chk.oblig(names == disp and default_ok and n_default >= 1 and len(disp) >= 39, "name-table | avp_name",
              "the number-to-name table used for rendering disagrees with the dispatch table: %s" % {k: v for k, v in diff.items() if v},
              {"rule": "avp_name(k) == name of the variant decode_avp(k) builds; number itself when unassigned", "diff": diff},
              {"obligation": "avp_name agrees with decode_avp on all 65536 numbers", "rows": len(names)})
    # ---- offending values on the message decoder
    eng = new_engine(chk, fx)
    rets = eng.analyse(a.msg_try_read_validate["key"], name="Message::try_read_validate[%s]" % config)
    record_engine(chk, eng, "Message::try_read_validate [%s]: %d paths" % (config, len(rets)))
    seen = {}
    bad = []
    for s, v in rets:
        reads = [e for e in s.events() if e[0] == "read"]
        for e in err_items(eng, s, v):
            nm = tables.variant_name(eng, e)
            f0 = field0(e)
            if nm == "InvalidVersion":
                F = next(iter(reads[0][3].lin.t))
                bits = eng.bits_of(f0) if isinstance(f0, VInt) else None
                ok = bits is not None and list(bits[:4]) == [("b", F, 4 + i) for i in range(4)] and all(b == 0 for b in bits[4:])
                seen[nm] = seen.get(nm, 0) + 1
                if not ok:
                    bad.append("InvalidVersion does not carry the version nibble")
            elif nm in ("InvalidOffset",):
                seen[nm] = seen.get(nm, 0) + 1
                if not (isinstance(f0, VInt) and reads and f0.lin == reads[-1][3].lin):
                    bad.append("%s does not carry the value just read" % nm)
    # an offset-size fault is reported as such: once the offset size has been read, no other rejection may happen
    # before the offset has been checked against the octets that remain
    okcount = {}
    for s, v in rets:
        vi, p = result_parts(v)
        reads = [e for e in s.events() if e[0] == "read"]
        if vi == 0 and reads and tables.variant_name(eng, p) == "Data":
            F = next(iter(reads[0][3].lin.t))
            if s.bitfacts.get((F, 14)):
                key = (s.bitfacts.get((F, 9)), s.bitfacts.get((F, 12)))
                okcount[key] = len(reads)
    for s, v in rets:
        reads = [e for e in s.events() if e[0] == "read"]
        if not reads:
            continue
        F = next(iter(reads[0][3].lin.t))
        if not s.bitfacts.get((F, 14)) or s.bitfacts.get((F, 8)):
            continue
        key = (s.bitfacts.get((F, 9)), s.bitfacts.get((F, 12)))
        for e in err_items(eng, s, v):
            nm = tables.variant_name(eng, e)
            skipped = any(x[0] == "skip" for x in s.events())
            if okcount.get(key) == len(reads) and not skipped and nm != "InvalidOffset":
                rd = s.cells.get(("obj", "reader"))
                off = reads[-1][3].lin
                if not (isinstance(rd, VReader) and eng.ent(s, c_le(off, rd.L))):
                    bad.append("after reading the offset size, %s can be reported while the offset may exceed the octets that remain" % nm)
    chk.oblig(not bad and seen.get("InvalidVersion", 0) >= 1 and seen.get("InvalidOffset", 0) >= 1, "offending | message header",
              "a header error does not carry the offending value: %s (seen %s)" % (sorted(set(bad))[:2], seen),
              {"rule": "InvalidVersion(version nibble), InvalidOffset(offset size)", "problems": sorted(set(bad)), "seen": seen},
              {"obligation": "InvalidVersion / InvalidOffset carry the offending value", "paths": seen})
    # ---- offending values in the AVP loop and the payload decoders
    eng = new_engine(chk, fx)
    info = {"bad": [], "seen": {}}

    def on_loop(frame, head, H, res, havoc, lid):
        if eng.mute or not in_ctx(frame, a.avp_greedy) or not record_loop(res, H.ntrace):
            return
        n0 = H.ntrace
        for b in res["back"]:
            evs = b.events()[n0:]
            reads = [e for e in evs if e[0] == "read"]
            pushes = [e for e in evs if e[0] == "push"]
            if not pushes:
                continue
            vi, p = result_parts(pushes[-1][2])
            top = [e for e in reads if e[1] == "reader.*"]
            hv = AvpHeaderView(eng, b, top)
            if not hv.ok:
                continue
            if vi != 1:
                if not eng.ent(b, c_eq(hv.vendor, Lin.const(0))):
                    info["bad"].append("a vendor-id fault is not reported (AVP accepted with a vendor id that may be non-zero)")
                continue
            nm = tables.variant_name(eng, p)
            f0 = field0(p)
            info["seen"][nm] = info["seen"].get(nm, 0) + 1
            inner = [e for e in reads if e[1] != "reader.*"]
            if nm == "UnsupportedVendorId" and not (isinstance(f0, VInt) and eng.ent(b, c_eq(f0.lin, hv.vendor))):
                info["bad"].append("UnsupportedVendorId does not carry the vendor id")
            if nm == "UnknownAvp" and not (isinstance(f0, VInt) and eng.ent(b, c_eq(f0.lin, hv.attr))):
                info["bad"].append("UnknownAvp does not carry the attribute type")
            if nm in ("UnknownMessageType", "InvalidResultCodeErrorType") and not (isinstance(f0, VInt) and inner and f0.lin == inner[-1][3].lin):
                info["bad"].append("%s does not carry the code just read" % nm)
            if nm in AVP_ERRS and not (isinstance(f0, VInt) and eng.ent(b, c_eq(f0.lin, hv.attr))):
                info["bad"].append("%s names another attribute type than the failing AVP's" % nm)
        info["n0"] = n0
    eng.hooks["loop"] = on_loop
    grets = eng.analyse(a.avp_greedy["key"], name="AVP::try_read_greedy[%s]" % config)
    for s, _ in grets:
        if "n0" not in info:
            break
        evs = s.events()[info["n0"]:]
        pushes = [e for e in evs if e[0] == "push"]
        reads = [e for e in evs if e[0] == "read" and e[1] == "reader.*"]
        hv = AvpHeaderView(eng, s, reads)
        if pushes and hv.ok:
            vi, p = result_parts(pushes[-1][2])
            if vi == 1 and tables.variant_name(eng, p) == "InvalidAVPLength":
                info["seen"]["InvalidAVPLength"] = info["seen"].get("InvalidAVPLength", 0) + 1
                f0 = field0(p)
                total = hv.total
                if not (isinstance(f0, VInt) and (eng.ent(s, c_eq(f0.lin, total)) or eng.ent(s, c_eq(f0.lin + 6, total)))):
                    info["bad"].append("InvalidAVPLength does not carry the AVP's length field (or its payload length)")
    need = ("UnsupportedVendorId", "UnknownAvp", "UnknownMessageType", "InvalidResultCodeErrorType", "InvalidAVPLength", "IncompleteAVP", "InvalidUtf8")
    chk.oblig(not info["bad"] and all(info["seen"].get(k, 0) >= 1 for k in need), "offending | AVP list",
              "an AVP error does not carry the offending value: %s (seen %s)" % (sorted(set(info["bad"]))[:3], info["seen"]),
              {"rule": "error payload has the provenance of the value whose test selected the error", "problems": sorted(set(info["bad"])), "seen": info["seen"]},
              {"obligation": "AVP-list errors carry the offending value", "paths": info["seen"]})
    # reveal
    eng = new_engine(chk, fx)
    rets = eng.analyse(a.avp_reveal["key"], name="AVP::reveal[%s]" % config)
    okr = 0
    badr = []
    for s, v in rets:
        for e in err_items(eng, s, v):
            if tables.variant_name(eng, e) == "InvalidOriginalAVPLength":
                okr += 1
                reads = [x for x in s.events() if x[0] == "read"]
                f0 = field0(e)
                good = isinstance(f0, VInt) and ((reads and f0.lin == reads[0][3].lin) or be16_of_buffer(eng, f0.lin))
                if not good:
                    badr.append("InvalidOriginalAVPLength does not carry the decrypted length")
    chk.oblig(okr >= 1 and not badr, "offending | AVP::reveal", "InvalidOriginalAVPLength: %s" % (badr[:1] or "unreachable"), {},
              {"obligation": "InvalidOriginalAVPLength carries the decrypted original length", "paths": okr})
    # ---- single-fault attribution at the first AVP: ControlMessageTypeNotFirst only for a decodable non-MessageType
    eng = new_engine(chk, fx)

    def on_ret(frame, st, rv):
        # the vector of per-record results, however the caller then looks at its first element
        if frame.key == a.avp_greedy["key"] and isinstance(rv, VRef):
            st.ghost = dict(st.ghost)
            st.ghost["greedy_result"] = rv.cell
    eng.hooks["return"] = on_ret
    rets = eng.analyse(a.ctrl_try_read["key"], name="ControlMessage::try_read[%s]" % config)
    n_nf = 0
    bad_nf = []
    for s, v in rets:
        items = err_items(eng, s, v)
        if len(items) == 1 and tables.variant_name(eng, items[0]) == "ControlMessageTypeNotFirst":
            n_nf += 1
            src = s.ghost.get("greedy_result")
            vv = s.cells.get(src) if src is not None else None
            if not (isinstance(vv, VVec) and eng.ent(s, c_eq(Lin.sym("%s[0]#v" % vv.name), Lin.const(0)))):
                bad_nf.append(s.notes()[-3:])
    chk.oblig(n_nf >= 1 and not bad_nf, "attribution | first AVP",
              "ControlMessageTypeNotFirst is reported although the first AVP record is itself undecodable (its own error, e.g. "
              "UnknownMessageType(code), is lost): %s" % bad_nf[:1],
              {"rule": "a single fault in the first AVP is reported as that fault", "paths": bad_nf[:3]},
              {"obligation": "ControlMessageTypeNotFirst only when the first AVP decoded to a non-MessageType AVP", "paths": n_nf})
    # ---- rendering
    disp_fn = None
    for f in fx.raw["fns"]:
        if f.get("trait") == "std::fmt::Display" and f.get("item") == "fmt" and "self_ty" in f:
            t = fx.types[f["self_ty"]]
            if t["k"] == "adt" and t["key"].endswith("::DecodeError"):
                disp_fn = f
    if chk.require_anchor(disp_fn is not None, "Display for DecodeError"):
        eng = new_engine(chk, fx)
        calls = []

        def on_call(frame, s, bb, func, args):
            if (func.get("resolved") or func)["key"] == a.avp_name["key"]:
                calls.append((s, args[0]))
        eng.hooks["call"] = on_call
        rets = eng.analyse(disp_fn["key"], name="DecodeError::fmt[%s]" % config)
        record_engine(chk, eng, "<DecodeError as Display>::fmt [%s]: %d paths" % (config, len(rets)))
        chk.add_engine_obligs(eng, KINDS, "C20 rendering is total")
        adt = fx.adts[fx.types[disp_fn["self_ty"]]["key"]]
        arms = {}
        for s, v in rets:
            lo, hi = eng.bounds(s, Lin.sym("self.*#v"))
            if lo is None or lo != hi:
                continue
            fm = [e for e in s.events() if e[0] == "fmt"]
            arms.setdefault(adt["variants"][lo]["name"], []).append(fm)
        missing = [v["name"] for v in adt["variants"] if v["name"] not in arms]
        empty = [n for n, fl in arms.items() if any(not fm or any(e[1] == "write_str" and e[2] == "" for e in fm) for fm in fl)]
        chk.oblig(not missing and not empty, "render | DecodeError::fmt",
                  "rendering is not defined with non-empty text for every error: missing %s, empty %s" % (missing, empty),
                  {"rule": "one arm per variant, each writes text"},
                  {"obligation": "Display has a text-writing arm for each of the %d error variants" % len(adt["variants"]), "arms": len(arms)})
        # AVP-related errors render avp_name(own payload)
        okn = set()
        for s, arg in calls:
            lo, hi = eng.bounds(s, Lin.sym("self.*#v"))
            if lo is not None and lo == hi:
                vn = adt["variants"][lo]["name"]
                if isinstance(arg, VInt) and list(arg.lin.t) == ["self.*.%s.0" % vn]:
                    okn.add(vn)
        chk.oblig(okn == set(AVP_ERRS), "render-name | DecodeError::fmt",
                  "AVP-related errors that render avp_name(their attribute type): %s, expected %s" % (sorted(okn), sorted(AVP_ERRS)),
                  {"rule": "AVP errors show the name of the AVP kind of their own number"},
                  {"obligation": "IncompleteAVP/InvalidUtf8/AVPReadError render avp_name(payload)"})


def run(chk):
    run_config(chk, "default")
    # "the unknown ... code is reported": every unassigned code of an enumerated field is rejected with its value (C16)
    from framework import Sub
    import rules.c16 as c16
    Sub(chk, "via C16 | ", lambda k: k.startswith("reject-value") or "(wire)" in k or "decode at the AVP decoder" in k or k == "table | attribute_type | dispatch"
        or k in ("table | message_type | decode", "pinning | message_type")
        ).borrow(c16, "default", 6, "rejection of unassigned codes")
    if chk.tier == "thorough":
        for cfg in ("debug", "release"):
            run_config(chk, cfg)
    return chk.finish(
        "proof",
        explanation="Table clauses decided exactly (name table = dispatch table on all 65536 numbers; own attribute type; one "
                    "rendering arm per variant, total). Offending-value clause by provenance: the error payload is the symbol/bit "
                    "field that the failing test examined. The single-fault attribution decode(inject(m,f)) = Err([e]) rests on "
                    "C15's list semantics and is not separately decided.",
        assumptions=["thiserror-generated Display calls are as compiled (crate-local MIR)", "fmt machinery is total (std)"])
