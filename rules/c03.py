"""C03 control messages and all AVP kinds round-trip (structural necessary conditions, by
cross-checking the sibling encoder/decoder of every kind; the value-level equation is not decided).

1. dispatch agreement: decode_avp(k) builds variant X  <=>  X's encoder starts with u16(k)
2. layout + field agreement: every encoder layout of X (per presence partition) is an accepting
   decoder layout with the same fields at the same positions
3. the decoder accepts what the encoder emits: with the payload length set to the size of the
   encoder layout (variable parts >= 1 octet) every length-class rejecting path is infeasible and
   every feasible accepting path has exactly the encoder's layout
4. AVP header: the decoder's 10-bit length split inverts the encoder's packing (C07 proves the
   packing against the same split formula; the split itself is checked here), H bit, vendor, type
5. control header: same field order on both sides; Length is recomputed"""
from rules.common import *
from lenflow import State
import layout
import tables
from rules.c04 import writer_paths, reader_paths
from rules.c06 import match_items
from rules.c05 import match_reader

LENGTH_ERRORS = ("IncompleteAVP", "AVPReadError", "InvalidAVPLength")


def w2r(item):
    """encoder item -> the decoder item it must correspond to"""
    if item[0] == "rest":
        return ("rest", item[1])
    if item[0] in ("enum",) or (item[0] == "const"):
        return ("read", item[1])
    return item


def same_layout(w, r, eng=None, ws=None):
    if len(w) != len(r):
        return False
    for a_, b_ in zip(w, r):
        if a_[0] == "rest":
            if not (b_[0] == "rest" and b_[1] == a_[1]):
                return False
        elif a_[0] in ("enum", "const"):
            if not (b_[0] in ("read", "int") and b_[1] == a_[1]):
                return False
            if a_[0] == "const" and b_[0] == "int" and eng is not None and len(b_) > 2 and isinstance(b_[2], str):
                # the decoder keeps these octets as the raw field b_[2]; a constant written in their place round-trips
                # only on encoder paths where that field is pinned to the constant
                if not eng.ent(ws, c_eq(Lin.sym("self.*." + b_[2]), Lin.const(a_[2]))):
                    return False
        elif tuple(a_) != tuple(b_):
            return False
    return True


def run_config(chk, config):
    fx = chk.facts(config)
    a = Anchors(chk, fx)
    if not (a.need("decode_avp", "avp_write", "avp_greedy", "msg_write", "msg_try_read_validate") and a.need_floors()):
        return
    L0 = Lin.sym("L(reader.*)")
    # ---- 1. dispatch agreement
    eng = new_engine(chk, fx)
    st = State()
    at = eng.named_int(eng.u16_ty(), "attribute_type", bits_sym=True)
    rets = eng.analyse(a.decode_avp["key"], args=[at, None], state=st, name="decode_avp[%s]" % config)
    disp = {}
    for s, v in rets:
        vi, payload = result_parts(v)
        if vi == 0:
            nm = tables.variant_name(eng, payload)
            c = tables.pinned(eng, s, at.lin)
            if nm is not None and c is not None:
                disp.setdefault(nm, set()).add(c)
    for vname, wf in sorted(a.payload_writers.items()):
        if vname == "Hidden":
            continue
        e2 = new_engine(chk, fx)
        r2 = e2.analyse(wf["key"], name="%s::write[%s]" % (vname, config))
        firsts = set()
        for s2, _ in r2:
            c = layout.canon_writer(e2, s2, layout.wtokens(e2, s2))
            firsts.add(c[0][2] if c and c[0][0] == "const" and c[0][1] == 2 else None)
        chk.oblig(len(firsts) == 1 and None not in firsts and disp.get(vname) == firsts, "dispatch | %s" % vname,
                  "encoder of %s starts with attribute type %s but the decoder builds %s for type(s) %s" % (vname, sorted(firsts, key=str), vname, sorted(disp.get(vname, []))),
                  {"rule": "dispatch table mirrors each kind's attribute type", "encoder": sorted(firsts, key=str), "decoder": sorted(disp.get(vname, []))},
                  {"obligation": "decode_avp(k) -> %s  <=>  %s::write starts with u16(k)" % (vname, vname), "k": sorted(firsts, key=str)})
    # ---- 2./3. per kind sibling cross-check
    for vname, wf in sorted(a.payload_writers.items()):
        rf = a.payload_readers.get(vname)
        if rf is None:
            continue        # SequencingRequired / Hidden have no payload decoder
        engw = new_engine(chk, fx)
        wrets = engw.analyse(wf["key"], name="%s::write[%s]" % (vname, config))
        engr = new_engine(chk, fx)
        rrets = engr.analyse(rf["key"], name="%s::try_read[%s]" % (vname, config))
        record_engine(chk, engr, "%s::try_read x %s::write [%s]: %d x %d paths" % (vname, vname, config, len(rrets), len(wrets)))
        engr.ranges.update(engw.ranges)
        rinfo = []
        for rs, rv in rrets:
            vi, payload = result_parts(rv)
            rt = layout.rtokens(engr, rs)
            rinfo.append((rs, vi, payload, layout.canon_reader(engr, rs, rt, payload if vi == 0 else None)))
        for ws, _ in wrets:
            wt = layout.wtokens(engw, ws)
            wc = layout.canon_writer(engw, ws, wt)[1:]           # without the attribute type
            size = Lin.const(-2)                                 # (everything emitted except the two attribute-type octets)
            extra = list(ws.cons)
            for t in wt:
                size = size + t["n"]
                if t["k"] == "bytes" and not t["n"].is_const():
                    extra.append(c_le(Lin.const(1), t["n"]))      # variable parts are non-empty in the encodable domain
            extra.append(c_eq(L0, size))
            n_ok = 0
            for rs, vi, payload, rc in rinfo:
                if not layout.conj_feasible(engr, rs, extra):
                    continue
                if vi != 0:
                    err = tables.variant_name(engr, payload)
                    consumed = Lin.const(0)
                    for t in layout.rtokens(engr, rs):
                        if t.get("ok", True):
                            consumed = consumed + t["n"]
                    whole = layout.conj_entails(engr, rs, extra, c_eq(consumed, size))
                    # a rejection after the whole payload was read is about a value (enum code, UTF-8), not a length
                    if err in LENGTH_ERRORS and not whole:
                        chk.oblig(False, "accept | %s | %s | %s" % (vname, err, layout_name(wc)),
                                  "%s decoder can reject (%s) a payload of exactly the size its encoder emits for layout %s" % (vname, err, wc),
                                  {"rule": "no length-class rejection of encoder output", "encoder_layout": wc, "decoder_path": rs.notes()[-6:]})
                    continue
                n_ok += 1
                chk.oblig(same_layout(wc, rc, engw, ws), "layout | %s | %s" % (vname, layout_name(wc)),
                          "%s: encoder emits %s but the decoder reads that size as %s" % (vname, wc, rc),
                          {"rule": "same fields, widths and order on both sides; reserved octets skipped", "encoder_layout": wc, "decoder_layout": rc,
                           "decoder_path": rs.notes()[-6:]},
                          {"obligation": "%s layout %s: decoder reads the same fields at the same positions" % (vname, layout_name(wc)), "layout": wc})
            chk.oblig(n_ok >= 1, "accept | %s | none | %s" % (vname, layout_name(wc)),
                      "%s: no accepting decoder path for encoder layout %s" % (vname, wc), {"encoder_layout": wc})
    # ---- 4. AVP header (decoder side; encoder side is C07)
    # done in C05 'avp-header-layout'; here: hidden branch keeps type and takes exactly the payload
    eng = new_engine(chk, fx)
    hid = {"n": 0, "bad": []}

    def on_loop(frame, head, H, res, havoc, lid):
        if not in_ctx(frame, a.avp_greedy) or not record_loop(res, H.ntrace):
            return
        for b in res["back"]:
            evs = b.events()
            reads = [e for e in evs[H.ntrace:] if e[0] == "read" and e[1] == "reader.*"]
            pushes = [e for e in evs if e[0] == "push"]
            hview = AvpHeaderView(eng, b, reads)
            if not hview.ok or not pushes:
                continue
            vi, p = result_parts(pushes[-1][2])
            if hview.bit(b, 1) is True and eng.ent(b, c_eq(hview.vendor, Lin.const(0))):
                hid["hbit"] = hid.get("hbit", 0) + 1
                if not (vi == 0 and tables.variant_name(eng, p) == "Hidden"):
                    hid["bad"].append("an AVP with the H bit (vendor id 0) is not decoded to Ok(Hidden): %s" % (tables.variant_name(eng, p),))
            if vi == 0 and tables.variant_name(eng, p) == "Hidden":
                hid["n"] += 1
                hv = p.variants[p.vidx.c][0]
                lv = dict(layout.leaves(eng, b, hv))
                at_, val = lv.get(".attribute_type"), lv.get(".value")
                want_len = hview.total - 6
                ok = isinstance(at_, VInt) and eng.ent(b, c_eq(at_.lin, hview.attr)) and isinstance(val, VVec) and eng.ent(b, c_eq(val.len, want_len)) \
                    and hview.bit(b, 1) is True
                if not ok:
                    hid["bad"].append(b.notes()[-4:])
    eng.hooks["loop"] = on_loop
    eng.analyse(a.avp_greedy["key"], name="AVP::try_read_greedy(hidden)[%s]" % config)
    chk.oblig(hid["n"] >= 1 and not hid["bad"], "hidden | AVP::try_read_greedy",
              "an AVP with the H bit is not decoded to Hidden{attribute type, exactly the payload octets}: %s" % hid["bad"][:1],
              {"rule": "Hidden keeps the clear attribute type and the whole value"},
              {"obligation": "H bit => Hidden{attribute_type: wire type, value: the length-6 payload octets}", "paths": hid["n"]})
    # ---- 5. control header and AVP order (the decoded list must be the encoded list: encoder walks self.avps forward)
    order_clause(chk, fx, a, config)
    encodable_clause(chk, fx, a, config)
    engw, wpaths = writer_paths(chk, fx, a, "Control")
    engr, rrets = reader_paths(chk, fx, a)
    worder = None
    for s, wt in wpaths:
        c = layout.canon_writer(engw, s, [t for t in wt if own_site(t["site"])],
                                "self.*.Control.0")
        worder = [x[2] if x[0] == "int" else x[0] for x in c]
    rorder = None
    for s, v in rrets:
        vi, payload = result_parts(v)
        if vi == 0 and tables.variant_name(engr, payload) == "Control":
            cm = payload.variants[payload.vidx.c][0]
            rc = layout.canon_reader(engr, s, [t for t in layout.rtokens(engr, s) if t["rid"] == "reader.*"], cm)
            rorder = [x[2] if x[0] == "int" else x[0] for x in rc[:6]]
    chk.oblig(worder is not None and rorder is not None and worder[:1] == ["const"] and rorder[:1] == ["read"] and
              worder[1:6] == ["zero", "tunnel_id", "session_id", "ns", "nr"] and rorder[1:6] == ["length", "tunnel_id", "session_id", "ns", "nr"],
              "control-header | order", "control header field order differs: encoder %s, decoder %s" % (worder, rorder),
              {"encoder": worder, "decoder": rorder},
              {"obligation": "control header: same field at each position on both sides", "encoder": worder, "decoder": rorder})


def encodable_clause(chk, fx, a, config):
    """the encoder refuses nothing inside the encodable domain: every reachable refusal (panic) of AVP::write happens
    with more than 1023 octets emitted for that AVP, every refusal of ControlMessage::write (outside the AVPs) with
    more than 65535 octets emitted for the message"""
    import json
    import os
    from framework import VERIF
    hs = json.load(open(os.path.join(VERIF, "spec", "headers.json")))
    W0 = Lin.sym("W(writer.*)")
    for fn, limit, what in ((a.avp_write, hs["avp_header"]["max_length"], "AVP::write"),
                            (a.msg_write, 65535, "ControlMessage::write")):      # entered through Message::write: the version is the crate's constant
        eng = new_engine(chk, fx)
        bad = []
        seen = {"n": 0}

        def sink(frame, st, bb, msg, limit=limit, what=what, eng=eng):
            if eng.mute:
                return
            if what == "ControlMessage::write" and ("AVP::write" in frame.ctxname or "DataMessage" in frame.ctxname):
                return                                  # an AVP's own refusal is judged on AVP::write; data messages are C04
            seen["n"] += 1
            wr = st.cells.get(("obj", "writer"))
            W = getattr(wr, "W", None)
            if W is None or not eng.ent(st, c_le(Lin.const(limit + 1), W - W0)):
                bad.append("%s can refuse (%s) with %s octets emitted, not proven more than %d: %s" % (
                    what, msg or "panic", "an unknown number of" if W is None else repr(W - W0), limit, frame.ctxname.split(" > ")[-1]))
        eng.hooks["panic_sink"] = sink
        eng.analyse(fn["key"], name="%s(encodable)[%s]" % (what, config))
        record_engine(chk, eng, "%s [%s]: %d refusal site(s) examined" % (what, config, seen["n"]))
        chk.oblig(not bad and seen["n"] >= 1, "encodable | %s" % what,
                  "%s" % (sorted(set(bad))[:2] or "no refusal path found (the size limit is not enforced)"),
                  {"rule": "a refusal implies the size limit is exceeded", "limit": limit, "problems": sorted(set(bad))},
                  {"obligation": "%s refuses only above %d octets" % (what, limit), "refusal_sites": seen["n"]})


def order_clause(chk, fx, a, config):
    from rules.c06 import avp_order_check
    avp_order_check(chk, fx, a, config)


def layout_name(c):
    return "+".join((x[2] if len(x) > 2 and isinstance(x[2], str) and x[2] else x[0]) + (str(x[1]) if x[0] in ("int", "zero", "bytes", "const", "enum") else "") for x in c) or "empty"


def run(chk):
    run_config(chk, "default")
    # the AVP list comes back whole and in order: the decoder's handling of the list of per-record results (C15)
    from framework import Sub
    import rules.c15 as c15
    Sub(chk, "via C15 | ", lambda k: k.startswith("all-or-nothing") and ("accepted list" in k or "wire order" in k or k.endswith("try_read"))
        ).borrow(c15, "default", 2, "accepted AVP list complete and in wire order")
    if chk.tier == "thorough":
        for cfg in ("debug", "release"):
            run_config(chk, cfg)
    return chk.finish(
        "other",
        explanation="Structural necessary conditions of decode(encode(v)) = v for all 40 AVP variants and the control header: "
                    "dispatch table mirrors attribute types; per presence partition the decoder's feasible accepting path on a "
                    "payload of exactly the encoder's size reads the same fields, widths and order; no length-class rejection of "
                    "encoder output; hidden AVPs keep type and value; control header order. NOT decided: that equal layouts carry "
                    "equal VALUES through to_be_bytes/from_be_bytes, String/Vec copies (trusted std semantics), multi-AVP messages "
                    "beyond tiling (C07/C08).",
        assumptions=["encodable domain: variable-length payloads non-empty, String fields valid UTF-8, enum fields hold named values"])
