"""C13 revealing is total: Ok(avp of the announced type) or Err, never a panic or an out-of-range read;
empty / misaligned / over-long-declared values are rejected."""
from rules.common import *
from lenflow import State

KINDS = ("arith", "bounds", "unwrap", "unsafe-pre", "reader-pre", "panic-reach", "rank")


def attr_type_consts(fx):
    """payload adt key -> ATTRIBUTE_TYPE constant"""
    out = {}
    for c in fx.raw["consts"]:
        if c["item"] == "ATTRIBUTE_TYPE" and "self_ty" in c and c["value"] and "bits" in c["value"]:
            t = fx.types[c["self_ty"]]
            if t["k"] == "adt":
                out[t["key"]] = c["value"]["bits"]
    return out


def run_config(chk, config):
    fx = chk.facts(config)
    a = Anchors(chk, fx)
    if not (a.need("avp_reveal", "decode_avp") and a.need_floors()):
        return
    f = a.avp_reveal
    hidden_idx = [i for i, (n, k, t) in enumerate(a.variants) if n == "Hidden"]
    if not chk.require_anchor(len(hidden_idx) == 1, "AVP::Hidden variant"):
        return
    hidden_idx = hidden_idx[0]
    atc = attr_type_consts(fx)
    chk.require_anchor(len(atc) >= 39, ">= 39 ATTRIBUTE_TYPE constants (found %d)" % len(atc))
    for mode in ("contract", "slice-reader-impl"):
        eng = new_engine(chk, fx, inline_rw_impls=(mode != "contract"))
        st = State()
        selfv = eng.symval(st, f["body"]["locals"][1], "self")
        rets = eng.analyse(f["key"], args=[selfv, None, None], state=st, name="AVP::reveal(%s)[%s]" % (mode, config))
        record_engine(chk, eng, "AVP::reveal (%s) [%s]: %d return paths" % (mode, config, len(rets)))
        chk.add_engine_obligs(eng, KINDS, "C13 reveal totality (%s)" % mode)
        if mode != "contract":
            continue
        # clauses on the return paths
        n_ok = n_err = n_id = 0
        for s, v in rets:
            vi, payload = result_parts(v)
            hidden = eng.ent(s, c_eq(selfv.vidx, Lin.const(hidden_idx)))
            if not hidden:
                # non-hidden input: identity
                same = vi == 0 and isinstance(payload, VAdt) and payload.vidx == selfv.vidx and payload.base == selfv.base
                n_id += 1
                chk.oblig(same, "identity | AVP::reveal | non-hidden", "reveal of a non-hidden AVP does not return its argument unchanged",
                          {"rule": "reveal(a) = Ok(a) for non-hidden a", "path": s.notes()[-6:]},
                          {"obligation": "reveal(non-hidden a) returns Ok(a)"})
                continue
            fs = eng.variant_fields(s, selfv, hidden_idx)
            hv = fs[0]
            hfs = eng.variant_fields(s, hv, 0)
            at, val = hfs[0], hfs[1]
            ln = vec_len_of(eng, s, val)
            if vi == 1:
                n_err += 1
                continue
            n_ok += 1
            # accepted => value non-empty, multiple of 16
            ok_len = ln is not None and eng.ent(s, c_le(Lin.const(1), ln))
            ok_al = False
            if ln is not None:
                q, r = eng.divmod_const(s, ln, 16)
                ok_al = eng.ent(s, c_eq(r, Lin.const(0)))
            chk.oblig(ok_len and ok_al, "reject | AVP::reveal | empty-or-misaligned",
                      "an Ok path of reveal is feasible for an empty or non-multiple-of-16 hidden value",
                      {"rule": "|v| = 0 or |v| mod 16 != 0 => Err", "path": s.notes()[-8:], "nonempty": ok_len, "aligned": ok_al})
            # of the announced type
            if isinstance(payload, VAdt) and payload.vidx.is_const():
                vname, akey, _ = a.variants[payload.vidx.c]
                want = atc.get(akey)
                good = want is not None and isinstance(at, VInt) and eng.ent(s, c_eq(at.lin, Lin.const(want)))
                chk.oblig(good, "announced-type | AVP::reveal | %s" % vname,
                          "reveal returns AVP::%s for an announced attribute type that is not proven to be %s" % (vname, want),
                          {"rule": "result is of the announced attribute type", "variant": vname, "expected_type": want,
                           "path": s.notes()[-8:]},
                          {"obligation": "Ok(AVP::%s) only when hidden.attribute_type == %s" % (vname, want)})
            else:
                chk.oblig(False, "announced-type | AVP::reveal | ?", "Ok result of reveal(hidden) has an undetermined variant",
                          {"path": s.notes()[-8:]})
        chk.extra.setdefault("return_paths", {})[config] = {"ok": n_ok, "err": n_err, "identity": n_id}
        chk.require_anchor(n_ok >= 39 and n_err >= 3, "reveal has Ok paths for >= 39 kinds and >= 3 rejecting paths (ok=%d err=%d)" % (n_ok, n_err))


def run(chk):
    run_config(chk, "default")
    run_config(chk, "debug")
    if chk.tier == "thorough":
        run_config(chk, "release")
    return chk.finish(
        "proof",
        explanation="AVP::reveal analysed for every hidden value length/content, attribute type, secret and random vector; "
                    "once against the Reader contract and once with SliceReader's method bodies analysed in place.",
        assumptions=["md5::compute is total and returns 16 octets", "allocation failure out of scope"])
