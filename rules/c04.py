"""C04 data messages survive encode then decode (structural clauses).

Per presence configuration (L,S,O,P) of the encoder: the token layout DataMessage::write emits is
matched, post hoc, against every path of the strict decoder: with the input constrained to that
layout (flag word, total size, Length = total size, offset n <= |data|-1) every rejecting path must
be infeasible, an accepting path must exist, and on it every decoded field must have the wire
provenance of the field the encoder emitted there (ids, Ns/Nr, priority bit, length, payload extent,
no offset, nothing left unread)."""
from rules.common import *
from lenflow import State
import layout
import tables


def msg_variant_value(eng, st, msg_ty, vname):
    adt, t = eng.adt_info(msg_ty)
    idx = [v["idx"] for v in adt["variants"] if v["name"] == vname][0]
    base = eng.symval(st, msg_ty, "self.*")
    return VAdt(msg_ty, Lin.const(idx), {}, "self.*"), idx


def strict_options(eng, fx, f):
    oty = f["body"]["locals"][2]
    adt, t = eng.adt_info(oty)
    fields = []
    for fld in adt["variants"][0]["fields"]:
        fadt, _ = eng.adt_info(fld["ty"])
        yes = [v["idx"] for v in fadt["variants"] if v["name"] == "Yes"][0]
        fields.append(VAdt(fld["ty"], Lin.const(yes), {yes: ()}))
    return VAdt(oty, Lin.const(0), {0: tuple(fields)})


def writer_paths(chk, fx, a, variant):
    """analyse Message::write for self = Message::<variant>; returns (engine, [(state, tokens)])"""
    eng = new_engine(chk, fx)
    st = State()
    f = a.msg_write
    self_ref_ty = f["body"]["locals"][1]
    msg_ty = fx.types[self_ref_ty]["to"]
    val, idx = msg_variant_value(eng, st, msg_ty, variant)
    st.cells[("obj", "self")] = val
    rets = eng.analyse(f["key"], args=[VRef(("obj", "self")), None], state=st, name="Message::write(%s)" % variant)
    record_engine(chk, eng, "Message::write(%s): %d paths" % (variant, len(rets)))
    out = []
    for s, _ in rets:
        wt = layout.split_known_bytes(eng, s, layout.wtokens(eng, s))
        # the flag word may be emitted as a constant per path or assembled from boolean bits: resolve to constants
        alts = layout.resolve_word(eng, s, wt[0]["val"]) if wt and wt[0]["k"] == "int" and wt[0]["prov"][0] != "const" else None
        if alts:
            for s2, w in alts:
                wt2 = [dict(wt[0], prov=("const", w))] + wt[1:]
                out.append((s2, wt2))
        else:
            out.append((s, wt))
    return eng, out


def reader_paths(chk, fx, a):
    eng = new_engine(chk, fx, unroll=True)
    f = a.msg_try_read_validate
    rets = eng.analyse(f["key"], args=[None, strict_options(eng, fx, f)], name="Message::try_read_validate(strict)")
    record_engine(chk, eng, "Message::try_read_validate(strict): %d paths" % len(rets))
    return eng, rets


def run_config(chk, config):
    fx = chk.facts(config)
    a = Anchors(chk, fx)
    if not a.need("msg_write", "msg_try_read_validate", "data_write", "data_try_read", "flags_new"):
        return
    engw, wpaths = writer_paths(chk, fx, a, "Data")
    chk.require_anchor(len(wpaths) >= 16, "DataMessage::write has >= 16 presence configurations (found %d)" % len(wpaths))
    engr, rrets = reader_paths(chk, fx, a)
    L0 = Lin.sym("L(reader.*)")
    # ranges of both engines are needed for the conjunction
    engr.ranges.update(engw.ranges)
    n_cfg = 0
    for ws, wt in wpaths:
        if not wt or wt[0]["k"] != "int" or wt[0]["n"].c != 2 or wt[0]["prov"][0] != "const":
            chk.oblig(False, "layout | DataMessage::write | flag word", "encoder path does not start with a constant 16-bit flag word: %s" % layout.fmt_tokens(wt)[:3],
                      {"tokens": layout.fmt_tokens(wt)})
            continue
        cF = wt[0]["prov"][1]
        ints = [t for t in wt if t["k"] == "int"]
        byts = [t for t in wt if t["k"] == "bytes"]
        if len(byts) != 1 or wt[-1]["k"] != "bytes":
            chk.oblig(False, "layout | DataMessage::write | payload", "encoder does not end with exactly one payload token: %s" % layout.fmt_tokens(wt), {})
            continue
        d = byts[0]["n"]
        header = sum(t["n"].c for t in ints)
        total = d + header
        provs = [t["prov"] for t in ints]
        cfg = {"L": any(p == ("sym", "self.*.Data.0.length.Some.0") for p in provs),
               "S": any(p == ("sym", "self.*.Data.0.ns_nr.Some.0.0") for p in provs),
               "O": any(p == ("sym", "self.*.Data.0.offset.Some.0") for p in provs),
               "P": ws.bitfacts.get(("self.*.Data.0.is_prioritized", 0))}
        cname = "".join(k for k in "LSOP" if cfg[k]) or "-"
        n_cfg += 1
        # field order in RFC order
        exp = [("const", cF)]
        if cfg["L"]:
            exp.append(("sym", "self.*.Data.0.length.Some.0"))
        exp += [("sym", "self.*.Data.0.tunnel_id"), ("sym", "self.*.Data.0.session_id")]
        if cfg["S"]:
            exp += [("sym", "self.*.Data.0.ns_nr.Some.0.0"), ("sym", "self.*.Data.0.ns_nr.Some.0.1")]
        if cfg["O"]:
            exp.append(("sym", "self.*.Data.0.offset.Some.0"))
        chk.oblig(provs == exp and all(t["n"].c == 2 for t in ints) and byts[0]["desc"] == ("sym", "self.*.Data.0.data"),
                  "layout | DataMessage::write | %s" % cname,
                  "encoder layout for configuration %s is %s" % (cname, layout.fmt_tokens(wt)),
                  {"rule": "flags,[length],tunnel,session,[ns,nr],[offset],payload, each 16 bits big-endian", "tokens": layout.fmt_tokens(wt)},
                  {"obligation": "DataMessage::write layout in configuration %s" % cname, "tokens": layout.fmt_tokens(wt)})
        if provs != exp:
            continue
        # the fixed part of the encoder output, octet by octet (which bits of which field / which constant)
        wocts = layout.writer_octets(engw, ws, [t for t in wt if t["k"] != "patch"])
        # decoder paths under the layout constraints
        base = list(ws.cons)
        base.append(c_le(Lin.const(1), d))                          # non-empty payload
        base.append(c_eq(L0, total))
        noff = Lin.sym("self.*.Data.0.offset.Some.0") if cfg["O"] else None
        if cfg["O"]:
            base.append(c_le(noff, d - 1))
        if cfg["L"]:
            base.append(c_eq(Lin.sym("self.*.Data.0.length.Some.0"), total))
        ok_paths = 0
        for rs, rv in rrets:
            rt = layout.rtokens(engr, rs)
            extra = list(base)
            pos = 0
            aligned = True
            pairs = {}
            for t in rt:
                if t["k"] == "read" and isinstance(pos, int):
                    # whatever width the decoder reads here, it gets the big-endian value of the octets the encoder
                    # put at these positions; fields the decoder carves out of a wider read get theirs
                    wn = t["n"].c
                    seg = wocts[pos:pos + wn]
                    want = layout.compose_octets(engr, rs, seg) if len(seg) == wn else None
                    if want is None:
                        aligned = False
                        break
                    sym = t["val"].lin
                    extra.append(c_eq(sym, want))
                    xs = next(iter(sym.t)) if len(sym.t) == 1 else None
                    for nm in list(layout._divdefs(rs)):
                        sp = layout.bitspan(engr, rs, Lin.sym(nm))
                        if sp is not None and sp[0] == xs and sp[1] % 8 == 0 and sp[2] % 8 == 0 and sp[1] + sp[2] <= 8 * wn:
                            a0 = pos + wn - (sp[1] + sp[2]) // 8
                            sub = layout.compose_octets(engr, rs, wocts[a0:a0 + sp[2] // 8])
                            if sub is not None:
                                extra.append(c_eq(Lin.sym(nm), sub))
                    pos += wn
                else:
                    pos = None
            # flag bits of this decoder path vs the emitted flag word
            fsym = rt[0]["val"].lin if rt and rt[0]["k"] == "read" else None
            consistent = True
            if fsym is not None:
                fname = next(iter(fsym.t))
                for (sym, k), val in rs.bitfacts.items():
                    if sym == fname and isinstance(k, int) and bool((cF >> k) & 1) != val:
                        consistent = False
            if not consistent:
                continue
            if fsym is not None:
                extra += layout.pin_divmods(rs, {next(iter(fsym.t)): cF})
            vi, payload = result_parts(rv)
            if not aligned:
                if layout.conj_feasible(engr, rs, extra):
                    chk.oblig(False, "align | DataMessage::try_read | %s" % cname,
                              "decoder reads a field at an offset/width the encoder does not emit in configuration %s: %s" % (cname, layout.fmt_tokens(rt)),
                              {"encoder": layout.fmt_tokens(wt), "decoder": layout.fmt_tokens(rt)})
                continue
            if not layout.conj_feasible(engr, rs, extra):
                continue
            if vi != 0:
                err = tables.variant_name(engr, payload) if payload is not None else None
                if err is None and isinstance(payload, VRef):
                    vv = rs.cells.get(payload.cell)
                    if isinstance(vv, VVec) and vv.elems:
                        err = tables.variant_name(engr, vv.elems[0])
                chk.oblig(False, "accept | DataMessage::try_read | %s | %s" % (cname, err),
                          "decoder can reject (%s) a well-formed data message in configuration %s" % (err, cname),
                          {"rule": "every rejecting decoder path is infeasible on encoder output", "configuration": cfg,
                           "error": err, "decoder_path": rs.notes()[-10:], "encoder": layout.fmt_tokens(wt), "decoder": layout.fmt_tokens(rt)})
                continue
            # accepting path: field agreement
            ok_paths += 1
            msg = payload
            if not (isinstance(msg, VAdt) and tables.variant_name(engr, msg) == "Data"):
                chk.oblig(False, "kind | DataMessage | %s" % cname, "a data message decodes as %s" % tables.variant_name(engr, msg), {})
                continue
            lv = dict(layout.leaves(engr, rs, msg.variants[msg.vidx.c][0]))
            problems = []

            def same(path, wname):
                v = lv.get(path)
                want = Lin.sym(wname)
                if not (isinstance(v, VInt) and layout.conj_entails(engr, rs, extra, c_eq(v.lin, want))):
                    problems.append("%s is not the value read where the encoder writes %s (got %r)" % (path, wname, v))
            same(".tunnel_id", "self.*.Data.0.tunnel_id")
            same(".session_id", "self.*.Data.0.session_id")
            if cfg["S"]:
                same(".ns_nr.Some.0.0", "self.*.Data.0.ns_nr.Some.0.0")
                same(".ns_nr.Some.0.1", "self.*.Data.0.ns_nr.Some.0.1")
            elif ".ns_nr.None" not in lv:
                problems.append("ns_nr is not None")
            if cfg["L"]:
                same(".length.Some.0", "self.*.Data.0.length.Some.0")
            elif ".length.None" not in lv:
                problems.append("length is not None")
            if ".offset.None" not in lv:
                problems.append("offset is reported")
            pr = lv.get(".is_prioritized")
            prv = engr.bool_value(rs, pr.f) if isinstance(pr, VBool) else None
            if isinstance(pr, VBool) and prv is None and fsym is not None and pr.f[0] == "bit" and pr.f[1] == next(iter(fsym.t)):
                prv = bool((cF >> pr.f[2]) & 1)
            if prv is None or prv != bool(cfg["P"]):
                problems.append("is_prioritized decodes as %r, the encoder wrote %r" % (pr, bool(cfg["P"])))
            dat = lv.get(".data")
            want_n = d - (noff if noff is not None else Lin.const(0))
            if not (isinstance(dat, VSlice) and layout.conj_entails(engr, rs, extra, c_eq(dat.len, want_n))
                    and layout.conj_entails(engr, rs, extra, c_eq(dat.start, Lin.const(header) + (noff if noff is not None else Lin.const(0))))):
                problems.append("payload extent is [%r,+%r), expected the %r octets after the header%s" % (
                    getattr(dat, "start", None), getattr(dat, "len", None), want_n, " and offset pad" if cfg["O"] else ""))
            # everything consumed
            rd = rs.cells.get(("obj", "reader"))
            if not (isinstance(rd, VReader) and layout.conj_entails(engr, rs, extra, c_eq(rd.L, Lin.const(0)))):
                problems.append("decoder leaves %r octets unread" % (getattr(rd, "L", None),))
            chk.oblig(not problems, "fields | DataMessage::try_read | %s" % cname,
                      "decode(encode(d)) differs from d in configuration %s: %s" % (cname, "; ".join(problems)),
                      {"rule": "each decoded field has the wire provenance of the same encoder field", "configuration": cfg,
                       "problems": problems, "encoder": layout.fmt_tokens(wt), "decoder": layout.fmt_tokens(rt)},
                      {"obligation": "field agreement in configuration %s" % cname, "encoder": layout.fmt_tokens(wt), "decoder": layout.fmt_tokens(rt)})
        chk.oblig(ok_paths >= 1, "accept | DataMessage::try_read | %s | no-ok-path" % cname,
                  "no accepting decoder path is feasible for encoder output in configuration %s" % cname,
                  {"configuration": cfg, "encoder": layout.fmt_tokens(wt)},
                  {"obligation": "an accepting decoder path exists for configuration %s" % cname})
    chk.require_anchor(n_cfg >= 16, "16 encoder configurations matched (found %d)" % n_cfg)


def run(chk):
    run_config(chk, "default")
    if chk.tier == "thorough":
        for cfg in ("debug", "release"):
            run_config(chk, cfg)
    return chk.finish(
        "other",
        explanation="Decides, for all 16 L/S/O/P configurations and all field values at once: encoder layout order/widths; "
                    "every rejecting path of the strict decoder infeasible on encoder output (Length = total size, offset n <= "
                    "|data|-1, non-empty payload); on the accepting path each decoded field is the value read at the position "
                    "where the encoder wrote the same field, priority = the emitted P bit, payload = exactly the octets after "
                    "header and offset pad, offset reported as None, nothing left unread. NOT decided: equality of the payload "
                    "octets themselves and of integer values through to_be_bytes/from_be_bytes (trusted std semantics).",
        assumptions=["Reader/Writer contracts (C18 closes them for SliceReader/VecWriter)"])
