"""C16 enumerated fields accept exactly their RFC 2661 code points, one-to-one.

Decode tables are extracted by abstract execution of the decoding function with a symbolic code
(one table row per accepting path, which must pin the code to one value), the phf table is read
from the static's resolved HIR initialiser, encode tables by executing the encoder per variant.
All are compared with /verif/spec/codes.json.  The domains are 65536 values each; the accept sets
are defined by finitely many rows, so the comparison is exhaustive."""
import json
import os
from rules.common import *
from lenflow import State
from framework import VERIF
import tables
import layout


def spec():
    return json.load(open(os.path.join(VERIF, "spec", "codes.json")))


def compare(chk, field, what, got, want):
    """got/want: dict name -> code"""
    ok = got == want
    diff = {"missing": {k: v for k, v in want.items() if k not in got},
            "unexpected": {k: v for k, v in got.items() if k not in want},
            "wrong": {k: (got[k], want[k]) for k in got if k in want and got[k] != want[k]}}
    chk.oblig(ok, "table | %s | %s" % (field, what),
              "%s table of %s differs from RFC 2661: %s" % (what, field, {k: v for k, v in diff.items() if v}),
              {"rule": "%s table == spec/codes.json[%s]" % (what, field), "got": got, "spec": want, "diff": diff},
              {"obligation": "%s table of %s equals the RFC table" % (what, field), "rows": len(got)})


def decode_rows(chk, eng, rets, field, code_of, want_err=None):
    """rows name->code from accepting paths; every accepting path must pin the code"""
    rows = {}
    dup = []
    unp = []
    phf = None
    nerr = 0
    for st, v in rets:
        vi, payload = result_parts(v)
        if vi != 0:
            nerr += 1
            continue
        code = code_of(st)
        val = payload
        name = tables.variant_name(eng, val)
        if name is None and isinstance(val, VAdt) and (val.base or "").startswith("phf["):
            # value comes out of a phf map looked up with the code: the table is the static's entries
            static = val.base[4:val.base.index("]")]
            keyrepr = val.base[val.base.index("](") + 2:-1]
            if code is None or repr(code) != keyrepr:
                unp.append("phf lookup key %s is not the decoded code %r" % (keyrepr, code))
            phf = static
            continue
        c = tables.pinned(eng, st, code) if code is not None else None
        if name is None or c is None:
            unp.append("path %s accepts without pinning (variant=%s, code=%r)" % (st.notes()[-3:], name, code))
            continue
        if name in rows and rows[name] != c:
            dup.append((name, rows[name], c))
        rows[name] = c
    if phf is not None:
        ent = tables.phf_entries(eng.fx, phf)
        if ent is None:
            unp.append("phf static %s has an initialiser that could not be read" % phf)
        else:
            for c, name in ent:
                if name in rows and rows[name] != c:
                    dup.append((name, rows[name], c))
                rows[name] = c
            if len(set(c for c, _ in ent)) != len(ent):
                dup.append(("duplicate key in phf table", None, None))
    codes = list(rows.values())
    if len(set(codes)) != len(codes):
        dup.append(("two names share one code", None, None))
    chk.oblig(not unp and not dup, "pinning | %s" % field,
              "decoder of %s accepts a code set that is not a one-to-one table: %s %s" % (field, unp[:2], dup[:2]),
              {"rule": "each accepting path decodes exactly one code point to one named value", "unpinned": unp, "conflicts": dup},
              {"obligation": "%s: accepting paths are pinned one-to-one" % field, "accepting_rows": len(rows), "rejecting_paths": nerr})
    chk.require_anchor(nerr >= 1, "%s decoder has a rejecting path" % field)
    return rows


def enum_ty(fx, suffix):
    for i, t in enumerate(fx.types):
        if t["k"] == "adt" and t["key"].endswith(suffix):
            return i
    return None


def encode_rows_from(eng_factory, fx, f, ty, pick):
    """run f(variant) for each variant of enum ty; pick(eng, st, ret) -> Lin/int code"""
    adt = fx.adts[fx.types[ty]["key"]]
    rows = {}
    for v in adt["variants"]:
        eng = eng_factory()
        st = State()
        val = tables.enum_value(eng, ty, v["idx"])
        rets = pick(eng, st, val)
        rows[v["name"]] = rets
    return rows


def run_config(chk, config):
    fx = chk.facts(config)
    a = Anchors(chk, fx)
    sp = spec()
    if not (a.need("decode_avp") and a.need_floors()):
        return
    mk = lambda: new_engine(chk, fx)

    # ---------------- message type
    rd = a.payload_readers.get("MessageType")
    wr = a.payload_writers.get("MessageType")
    if chk.require_anchor(rd is not None and wr is not None, "MessageType decoder/encoder"):
        eng = mk()
        rets = eng.analyse(rd["key"], name="MessageType::try_read")
        record_engine(chk, eng, "MessageType::try_read: %d paths" % len(rets))
        rows = decode_rows(chk, eng, rets, "message_type", lambda st: (tables.first_read(st).lin if tables.first_read(st) is not None else None))
        compare(chk, "message_type", "decode", rows, sp["message_type"])
        # the rejected code is reported
        bad = [1 for st, v in rets if result_parts(v)[0] == 1 and tables.variant_name(eng, result_parts(v)[1]) == "UnknownMessageType"
               and not (isinstance(result_parts(v)[1].variants[result_parts(v)[1].vidx.c][0], VInt) and
                        result_parts(v)[1].variants[result_parts(v)[1].vidx.c][0].lin == tables.first_read(st).lin)]
        chk.oblig(not bad, "reject-value | message_type", "UnknownMessageType does not carry the received code", {"rule": "rejected code reported"},
                  {"obligation": "UnknownMessageType(id) carries the wire code"})
        mty = wr["self_ty"]
        enc = {}
        adt = fx.adts[fx.types[mty]["key"]]
        for v in adt["variants"]:
            e2 = mk()
            st = State()
            st.cells[("obj", "self")] = tables.enum_value(e2, mty, v["idx"])
            r2 = e2.analyse(wr["key"], args=[VRef(("obj", "self")), None], state=st, name="MessageType::write(%s)" % v["name"])
            toks = [ev for ev in r2[0][0].events() if ev[0] == "w"] if len(r2) == 1 else []
            if len(toks) == 2 and isinstance(toks[1][3], VInt) and toks[1][3].lin.is_const():
                enc[v["name"]] = toks[1][3].lin.c
        compare(chk, "message_type", "encode", enc, sp["message_type"])

    # ---------------- num_enum style enums at their use sites
    def tryfrom_rows(field, suffix):
        ty = enum_ty(fx, suffix)
        if not chk.require_anchor(ty is not None, "enum %s" % suffix):
            return
        name = fx.types[ty]["name"]
        from stubs2 import find_impl_fn
        eng = mk()
        f = find_impl_fn(eng, "std::convert::TryFrom", name, "try_from")
        g = find_impl_fn(eng, "std::convert::From", "u16", "from", lambda fn: fn["body"]["locals"][1] == ty)
        if not chk.require_anchor(f is not None, "TryFrom<u16> for %s" % suffix):
            return
        st = State()
        x = eng.named_int(eng.u16_ty(), "code", bits_sym=True)
        rets = eng.analyse(f["key"], args=[x], state=st, name="%s::try_from" % suffix)
        record_engine(chk, eng, "%s::try_from(u16): %d paths" % (suffix, len(rets)))
        rows = decode_rows(chk, eng, rets, field, lambda s: x.lin)
        compare(chk, field, "decode", rows, sp[field])
        if chk.require_anchor(g is not None, "From<%s> for u16" % suffix):
            enc = {}
            adt = fx.adts[fx.types[ty]["key"]]
            for v in adt["variants"]:
                e2 = mk()
                r2 = e2.analyse(g["key"], args=[tables.enum_value(e2, ty, v["idx"])], name="u16::from(%s)" % v["name"])
                if len(r2) == 1 and isinstance(r2[0][1], VInt) and r2[0][1].lin.is_const():
                    enc[v["name"]] = r2[0][1].lin.c
            compare(chk, field, "encode", enc, sp[field])

    tryfrom_rows("error_type", "::ErrorType")
    tryfrom_rows("proxy_authen_type", "::ProxyAuthenType")
    tryfrom_rows("stop_ccn_code", "::StopCcnCode")
    tryfrom_rows("cdn_code", "::CdnCode")

    # use sites: the payload decoders route the wire code through those conversions
    for field, vname, pick in (("proxy_authen_type", "ProxyAuthenType", lambda p: p),):
        rdf = a.payload_readers.get(vname)
        if chk.require_anchor(rdf is not None, "%s::try_read" % vname):
            eng = mk()
            rets = eng.analyse(rdf["key"], name="%s::try_read" % vname)
            rows = decode_rows(chk, eng, rets, field + " (wire)", lambda st: (tables.first_read(st).lin if tables.first_read(st) is not None else None))
            compare(chk, field, "decode at the AVP decoder", rows, sp[field])
    # ResultCode: error type at its use site; raw code kept
    rdf = a.payload_readers.get("ResultCode")
    if chk.require_anchor(rdf is not None, "ResultCode::try_read"):
        eng = mk()
        rets = eng.analyse(rdf["key"], name="ResultCode::try_read")
        rows = {}
        raw_ok = True
        nerrpaths = 0
        bad_pin = []
        for st, v in rets:
            vi, payload = result_parts(v)
            reads = [e for e in st.events() if e[0] == "read"]
            if vi != 0:
                nerrpaths += 1
                continue
            code, err = payload.variants[0]
            cv = code.variants[0][0] if isinstance(code, VAdt) else None
            if not (isinstance(cv, VInt) and reads and cv.lin == reads[0][3].lin):
                raw_ok = False
            evi, ep = result_parts(err)
            if evi == 1:
                et = ep.variants[0][0]
                nm = tables.variant_name(eng, et)
                c = tables.pinned(eng, st, reads[1][3].lin) if len(reads) > 1 else None
                if nm is None or c is None:
                    bad_pin.append(st.notes()[-3:])
                else:
                    rows[nm] = c
        chk.oblig(raw_ok, "raw | result_code", "ResultCode decoder does not keep the raw 16-bit result code",
                  {"rule": "every result code value is kept raw"}, {"obligation": "ResultCode.code == wire value for all 65536 codes"})
        chk.oblig(not bad_pin, "pinning | error_type (wire)", "error type accepted without pinning: %s" % bad_pin[:2], {"paths": bad_pin})
        compare(chk, "error_type", "decode at the AVP decoder", rows, sp["error_type"])
    # CodeValue typed views
    cvty = enum_ty(fx, "::CodeValue")
    if chk.require_anchor(cvty is not None, "CodeValue"):
        for item, field in (("as_stop_ccn", "stop_ccn_code"), ("as_cdn", "cdn_code")):
            f = find_fn(fx, "result_code::code::CodeValue", item)
            if not chk.require_anchor(f is not None, "CodeValue::%s" % item):
                continue
            eng = mk()
            st = State()
            x = eng.named_int(eng.u16_ty(), "code", bits_sym=True)
            st.cells[("obj", "self")] = VAdt(cvty, Lin.const(0), {0: (x,)})
            rets = eng.analyse(f["key"], args=[VRef(("obj", "self"))], state=st, name="CodeValue::%s" % item)
            rows = decode_rows(chk, eng, rets, field + " (typed view)", lambda s: x.lin)
            compare(chk, field, "typed view", rows, sp[field])

    # ---------------- attribute types
    eng = mk()
    st = State()
    at = eng.named_int(eng.u16_ty(), "attribute_type", bits_sym=True)
    rets = eng.analyse(a.decode_avp["key"], args=[at, None], state=st, name="decode_avp")
    record_engine(chk, eng, "decode_avp(symbolic type): %d paths" % len(rets))
    rows = {}
    unp = []
    unknown_ok = True
    n_unknown = 0
    for s, v in rets:
        vi, payload = result_parts(v)
        if vi == 0:
            nm = tables.variant_name(eng, payload)
            c = tables.pinned(eng, s, at.lin)
            if nm is None or c is None:
                unp.append(s.notes()[-2:])
            else:
                if nm in rows and rows[nm] != c:
                    unp.append(("two codes for", nm))
                rows[nm] = c
        elif vi == 1 and tables.variant_name(eng, payload) == "UnknownAvp":
            n_unknown += 1
            x = payload.variants[payload.vidx.c][0]
            if not (isinstance(x, VInt) and x.lin == at.lin):
                unknown_ok = False
            # the rejecting path excludes every assigned number
            for nm, c in sp["attribute_type"].items():
                if not eng.ent(s, (at.lin - c, "ne")):
                    unknown_ok = False
    chk.oblig(not unp, "pinning | attribute_type", "dispatch accepts without pinning the attribute type: %s" % unp[:2], {"paths": unp},
              {"obligation": "every accepting dispatch path pins the attribute type", "rows": len(rows)})
    compare(chk, "attribute_type", "dispatch", rows, sp["attribute_type"])
    chk.oblig(unknown_ok and n_unknown >= 1, "reject-value | attribute_type",
              "unassigned attribute types are not all rejected with UnknownAvp(number)", {"rule": "x not in assigned => Err(UnknownAvp(x))"},
              {"obligation": "UnknownAvp(x) carries x and is reached only for unassigned x"})
    # ... and the AVP list decoder reports every unassigned number (no record is dropped silently)
    if a.avp_greedy is not None:
        eg = mk()
        ginfo = {"bad": [], "unassigned_paths": 0}

        def on_loop(frame, head, H, res, havoc, lid):
            if eg.mute or not in_ctx(frame, a.avp_greedy) or not record_loop(res, H.ntrace):
                return
            for b in res["back"]:
                evs = b.events()[H.ntrace:]
                reads = [e for e in evs if e[0] == "read" and e[1] == "reader.*"]
                pushes = [e for e in evs if e[0] == "push"]
                hv = AvpHeaderView(eg, b, reads)
                if not hv.ok:
                    continue
                atv = VInt(None, hv.attr)
                if hv.bit(b, 1) is True or not eg.ent(b, c_eq(hv.vendor, Lin.const(0))):
                    continue
                if all(eg.ent(b, (atv.lin - c, "ne")) for c in sp["attribute_type"].values()):
                    ginfo["unassigned_paths"] += 1
                    okp = False
                    if len(pushes) == 1:
                        vi, p = result_parts(pushes[0][2])
                        if vi == 1 and tables.variant_name(eg, p) == "UnknownAvp":
                            x = p.variants[p.vidx.c][0]
                            okp = isinstance(x, VInt) and eg.ent(b, c_eq(x.lin, atv.lin))
                    if not okp:
                        ginfo["bad"].append("a record with an unassigned attribute type is not reported as UnknownAvp(type) (pushes: %d)" % len(pushes))
        eg.hooks["loop"] = on_loop
        eg.analyse(a.avp_greedy["key"], name="AVP::try_read_greedy[%s]" % config)
        chk.oblig(not ginfo["bad"] and ginfo["unassigned_paths"] >= 1, "reject-value | attribute_type | AVP list",
                  "the AVP list decoder does not reject every unassigned attribute type: %s" % sorted(set(ginfo["bad"]))[:2],
                  {"rule": "each of the remaining 16-bit attribute types is rejected", "paths": ginfo["unassigned_paths"]},
                  {"obligation": "AVP::try_read_greedy pushes Err(UnknownAvp(x)) for every unassigned x", "paths": ginfo["unassigned_paths"]})
    enc = {}
    for vname, wf in sorted(a.payload_writers.items()):
        if vname == "Hidden":
            continue
        e2 = mk()
        r2 = e2.analyse(wf["key"], name="%s::write" % vname)
        firsts = set()
        for s2, _ in r2:
            # the first two octets of the payload encoding, however they are emitted (a 16-bit write, part of a
            # pre-assembled array): the attribute type
            octs = layout.writer_octets(e2, s2, layout.wtokens(e2, s2))
            v2 = layout.compose_octets(e2, s2, octs[:2]) if len(octs) >= 2 else None
            if v2 is not None and v2.is_const():
                firsts.add(v2.c)
            else:
                firsts.add(None)
        if len(firsts) == 1 and None not in firsts:
            enc[vname] = firsts.pop()
    compare(chk, "attribute_type", "encode (first payload token)", enc, sp["attribute_type"])


def run(chk):
    run_config(chk, "default")
    # "each of the remaining values is rejected": the field is consulted whenever it is present (C05 layouts of the
    # enumerated kinds) and a rejected AVP rejects the message (C15)
    from framework import Sub
    import rules.c05 as c05
    import rules.c15 as c15
    kinds = ("MessageType::", "ResultCode::", "ProxyAuthenType::")
    Sub(chk, "via C05 | ", lambda k: k.startswith(("layout", "by-length", "min-length")) and any(x in k for x in kinds)
        ).borrow(c05, "default", 6, "enumerated kinds' decoder layouts")
    Sub(chk, "via C15 | ", lambda k: True).borrow(c15, "default", 6, "error propagation to the message level")
    # "every named value encodes to its RFC number": the field is emitted whenever the value is present (C06 layouts)
    import rules.c06 as c06
    Sub(chk, "via C06 | ", lambda k: k in ("payload | MessageType", "payload | ResultCode", "payload | ProxyAuthenType")
        ).borrow(c06, "default", 3, "enumerated kinds' encoder layouts")
    if chk.tier == "thorough":
        for cfg in ("debug", "release"):
            run_config(chk, cfg)
    return chk.finish(
        "proof", exhaustive=True,
        explanation="Six enumerated code spaces: decode tables (one pinned row per accepting path, rejecting paths for the "
                    "rest of the 16-bit domain), encode tables (per variant), phf entries from the resolved initialiser; all equal "
                    "to the RFC 2661 tables in spec/codes.json and mutually inverse.",
        assumptions=["phf_map! builds a map whose get(k) finds exactly its entries (phf 0.11)", "spec/codes.json is the reading of RFC 2661"])
