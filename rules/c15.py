"""C15 control messages: all-or-nothing acceptance and a complete, ordered error list (structural clauses).

Greedy AVP loop (per iteration, from the loop's inductive analysis):
  * exactly one push per parsed header, into the single result vector (wire order by construction)
  * a pushed Ok implies vendor id 0; vendor id != 0 pushes Err(UnsupportedVendorId(vendor id))
  * the loop is left only with fewer than 6 octets remaining or right after pushing
    Err(InvalidAVPLength(..)) (unusable length field)
ControlMessage::try_read (path facts):
  * every accepting path has an empty AVP list (ZLB) or a first element pinned to Ok(MessageType)
  * every accepting path passed an all-ok test over the same vector (recognised idioms:
    iter().any(is_err) false / iter().all(is_ok) true); accepted AVP list = all elements
  * every list-rejecting path returns the collect of filter_map(err) over the same vector (order and
    multiplicity preserved by std), and nothing alters that list before it is returned
  * ZLB accepted"""
from rules.common import *
from lenflow import State
import layout
import tables

ALLOWED_LIST_OPS = ("::push", "::extend_from_slice", "::extend", "::with_capacity", "::new", "::len", "::is_empty", "::iter", "::deref",
                    "::first", "::into_iter", "::collect", "::filter_map", "::any", "::all", "::as_slice", "::get", "::last", "::clone")


def run_config(chk, config):
    fx = chk.facts(config)
    a = Anchors(chk, fx)
    if not a.need("avp_greedy", "ctrl_try_read", "msg_try_read_validate", "header_try_read"):
        return
    # ---------------- greedy loop
    eng = new_engine(chk, fx)
    info = {"back": 0, "exits": 0, "probs": [], "vendor_err": 0, "ok_push": 0, "stop_len": 0, "stop_short": 0}

    def on_loop(frame, head, H, res, havoc, lid):
        if eng.mute or not in_ctx(frame, a.avp_greedy) or not record_loop(res, H.ntrace):
            return
        n0 = H.ntrace
        Lh = None
        rd = H.cells.get(("obj", "reader"))
        if isinstance(rd, VReader):
            Lh = rd.L
        for b in res["back"]:
            info["back"] += 1
            evs = b.events()[n0:]
            pushes = [e for e in evs if e[0] == "push"]
            reads = [e for e in evs if e[0] == "read" and e[1] == "reader.*"]
            if len(pushes) != 1:
                info["probs"].append("an iteration pushes %d results for one parsed AVP header" % len(pushes))
                continue
            # an iteration that only read a header (no payload carve) and goes round again: is the loop certain to stop
            # after it (e.g. through a flag set on this path)?
            if not [e for e in evs if e[0] in ("sub", "bytes", "skip") and e[1] == "reader.*"]:
                cont = continues_after(eng, frame, head, b)
                vi0, p0 = result_parts(pushes[0][2])
                nm0 = tables.variant_name(eng, p0) if vi0 == 1 else None
                if cont is not None and not cont:
                    info["flag_stops"] = info.get("flag_stops", 0) + 1
                    if nm0 != "InvalidAVPLength":
                        info["probs"].append("the loop stops after pushing %s (only an unusable length field may stop it)" % (nm0 or "Ok"))
                elif nm0 == "InvalidAVPLength":
                    info["probs"].append("the loop does not stop after reporting an unusable length field (it goes on parsing what follows as records)")
            hv = AvpHeaderView(eng, b, reads)
            if not hv.ok:
                info["probs"].append("an iteration continues without having parsed a 6-octet header")
                continue
            vendor = VInt(None, hv.vendor)
            vi, p = result_parts(pushes[0][2])
            if vi == 0:
                info["ok_push"] += 1
                if not eng.ent(b, c_eq(vendor.lin, Lin.const(0))):
                    info["probs"].append("Ok pushed although vendor id not proven 0")
            elif vi == 1:
                nm = tables.variant_name(eng, p)
                if nm == "UnsupportedVendorId":
                    info["vendor_err"] += 1
                    x = p.variants[p.vidx.c][0]
                    if not (isinstance(x, VInt) and eng.ent(b, c_eq(x.lin, vendor.lin))):
                        info["probs"].append("UnsupportedVendorId does not carry the vendor id")
                elif eng.ent(b, (vendor.lin, "ne")):
                    info["probs"].append("a vendor-specific AVP yields %s instead of UnsupportedVendorId" % nm)
            else:
                info["probs"].append("pushed value is neither Ok nor Err on a path")
            # a non-zero vendor id never reaches an Ok push: covered above. Is UnsupportedVendorId reachable at all?
        info["n0"] = n0
        info["Lh"] = Lh
    eng.hooks["loop"] = on_loop
    grets = eng.analyse(a.avp_greedy["key"], name="AVP::try_read_greedy[%s]" % config)
    # how the loop is left: the events after the loop head on each return path are the last, partial iteration
    n0, Lh = info.get("n0"), info.get("Lh")
    for st, _ in grets:
        if n0 is None:
            break
        info["exits"] += 1
        evs = st.events()[n0:]
        pushes = [e for e in evs if e[0] == "push"]
        if not pushes:
            if Lh is not None and eng.ent(st, c_le(Lh, Lin.const(5))):
                info["stop_short"] += 1
            elif info.get("flag_stops") and not [e for e in evs if e[0] == "read"]:
                info["stop_len"] += 1         # the exit taken after an iteration that was certain to be the last (judged there)
            else:
                info["probs"].append("the loop can stop silently with 6 or more octets remaining (path %s)" % st.notes()[-2:])
        else:
            vi, p = result_parts(pushes[-1][2])
            nm = tables.variant_name(eng, p) if vi == 1 else None
            if len(pushes) == 1 and nm == "InvalidAVPLength":
                info["stop_len"] += 1
            else:
                info["probs"].append("the loop stops after pushing %s (only an unusable length field may stop it)" % (nm or "Ok"))
    record_engine(chk, eng, "AVP::try_read_greedy [%s]: %s" % (config, {k: v for k, v in info.items() if k != "probs"}))
    gclauses = [
        ("one result per record", lambda p: "pushes" in p or "6-octet header" in p or "neither Ok nor Err" in p, info["back"] >= 40),
        ("vendor-specific records are errors", lambda p: "vendor" in p.lower(), info["vendor_err"] >= 1 and info["ok_push"] >= 1),
        ("stops only at <6 octets or an unusable length", lambda p: "stop" in p, info["stop_len"] >= 1 and info["stop_short"] >= 1),
    ]
    seen = set()
    for cname, pred, floor in gclauses:
        mine = sorted(set(p for p in info["probs"] if pred(p)))
        seen.update(mine)
        chk.oblig(not mine and floor, "greedy | AVP::try_read_greedy | %s" % cname,
                  "greedy AVP reader, %s: %s" % (cname, mine[:3] or "rule instances below the confirmed floor %s" % {k: v for k, v in info.items() if k != "probs"}),
                  {"rule": cname, "problems": mine, "stats": {k: v for k, v in info.items() if k != "probs"}},
                  {"obligation": "greedy loop: " + cname, "iteration_paths": info["back"], "exit_paths": info["exits"]})
    rest = sorted(set(info["probs"]) - seen)
    chk.oblig(not rest, "greedy | AVP::try_read_greedy", "greedy AVP reader: %s" % rest[:3], {"problems": rest})
    # ---------------- ControlMessage::try_read
    eng = new_engine(chk, fx)
    flags_ty = None
    for i, t in enumerate(fx.types):
        if t["k"] == "adt" and t["key"].endswith("message::flags::Flags"):
            flags_ty = i
    listops = []

    def on_call(frame, st, bb, func, args):
        if eng.mute:
            return
        name = (func.get("resolved") or func)["name"]
        for ag in args:
            v = ag
            for _ in range(3):
                if isinstance(v, VRef):
                    t = st.cells.get(v.cell)
                    if isinstance(t, VVec):
                        listops.append((v.cell, name, frame.fn["name"]))
                        break
                    v = eng.load(st, v.cell, v.path)
                else:
                    break
    eng.hooks["call"] = on_call
    loopfacts = []
    hand_ok = 0

    def on_ret(frame, st, rv):
        if frame.key == a.avp_greedy["key"] and isinstance(rv, VRef):
            st.ghost = dict(st.ghost)
            st.ghost["greedy_result"] = rv.cell

    def on_tr_loop(frame, head, H, res, havoc, lid):
        # per-iteration discipline of a hand-written loop over the greedy result vector
        if eng.mute or not (frame.key == a.ctrl_try_read["key"] or frame.ctxname.split(" > ")[0] == a.ctrl_try_read["name"]):
            return
        if "try_read_greedy" in frame.ctxname:
            return
        src = H.ghost.get("greedy_result")
        if src is None or not any(e[0] == "iter_next" and e[2] == src for b in res["back"] for e in b.events()[H.ntrace:]):
            return
        for b in res["back"]:
            evs = b.events()[H.ntrace:]
            nx = [e for e in evs if e[0] == "iter_next"]
            ps = [e for e in evs if e[0] == "push"]
            good = len(nx) == 1 and nx[0][2] == src and len(ps) == 1
            if good:
                vi, pay = result_parts(ps[0][2]) if isinstance(ps[0][2], VAdt) else (None, None)
                # which variant was the element on this path?
                vv = b.cells.get(src)
                rn = [e for e in evs if e[0] == "range_next"]
                if isinstance(vv, VVec) and rn:
                    el = "%s[%r]" % (vv.name, rn[-1][4])
                    is_ok = eng.ent(b, c_eq(Lin.sym(el + "#v"), Lin.const(0)))
                    is_err = eng.ent(b, c_eq(Lin.sym(el + "#v"), Lin.const(1)))
                    good = is_ok or is_err
                    loopfacts.append(((frame.key, head), good, ps[0][1], is_ok))
                    continue
            loopfacts.append(((frame.key, head), False, None, None))
    eng.hooks["return"] = on_ret
    eng.hooks["loop"] = on_tr_loop
    rets = eng.analyse(a.ctrl_try_read["key"], name="ControlMessage::try_read[%s]" % config)
    record_engine(chk, eng, "ControlMessage::try_read [%s]: %d paths" % (config, len(rets)))
    mt_idx = [i for i, (n, k, t) in enumerate(a.variants) if n == "MessageType"][0]
    probs = []
    undecided = []
    n_ok = n_zlb = n_listerr = 0
    for st, v in rets:
        vi, payload = result_parts(v)
        evs = st.events()
        hofs = [e for e in evs if e[0] == "hof"]
        colls = [e for e in evs if e[0] == "collect"]
        pushes = [e for e in evs if e[0] == "push"]
        # the result vector and the lists made from it keep wire order: no element is taken out by swapping
        for e in evs:
            if e[0] == "vec_take" and e[2] == "swap_remove" and not e[4]:
                probs.append("a list of AVP results is reordered on the way (Vec::swap_remove of an element that is not the last, %s)" % (e[5].get("ln"),))
        if vi == 0:
            n_ok += 1
            cm = payload
            lv = dict(layout.leaves(eng, st, cm))
            avps = lv.get(".avps")
            # which vector was tested?
            tested = [e for e in hofs if e[2] is not None]
            if not tested:
                # no recognised all-ok idiom (any(is_err) / all(is_ok)).  If the function walks the result vector in a
                # loop of its own, the test is present but not of a recognised shape: undecided, not an alarm.
                # loops of try_read itself, of a helper it calls, or of a std consumer run on its behalf, that walked the
                # greedy result vector
                done = [l for l in st.ghost.get("loops_done", ()) if any(x[0] == l for x in loopfacts)]
                if done:
                    # hand-written partition loop.  Counting argument: every iteration takes one element of the result
                    # vector and pushes it to exactly one list, Ok payloads only to the accepted list; so an accepted
                    # list as long as the result vector means every element was Ok, and a shorter one means a record
                    # was dropped.  Decided when the loop's conserved-sum invariant settles the lengths; otherwise noted
                    # as undecided (never an alarm).
                    src = st.ghost.get("greedy_result")
                    vv = st.cells.get(src) if src is not None else None
                    if isinstance(vv, VVec) and isinstance(avps, VVec):
                        if eng.ent(st, c_eq(avps.len, vv.len)):
                            bad_it = [x for x in loopfacts if x[0] == done[-1]]
                            if any(not x[1] for x in bad_it) or not bad_it:
                                undecided.append("partition loop: per-iteration push discipline not established")
                            else:
                                hand_ok += 1
                            if not eng.ent(st, c_eq(vv.len, Lin.const(0))):
                                e0 = "%s[0]" % vv.name
                                ex = [c_eq(Lin.sym(e0 + "#v"), Lin.const(0))]
                                if layout.conj_feasible(eng, st, ex) and not layout.conj_entails(eng, st, ex, c_eq(Lin.sym(e0 + ".Ok.0#v"), Lin.const(mt_idx))):
                                    probs.append("a non-empty message is accepted without its first AVP being pinned to Ok(MessageType)")
                            else:
                                n_zlb += 1
                            continue
                        if eng.ent(st, c_le(avps.len + 1, vv.len)):
                            probs.append("the accepted AVP list is shorter than the list of decoded records on an accepting path: a record "
                                         "(decoded or not) is dropped without being reported (path %s)" % st.notes()[-3:])
                            continue
                    undecided.append("acceptance test over the AVP results is a hand-written loop (not decided)")
                    continue
                probs.append("a message is accepted without an all-ok test over its AVP results")
                continue
            vec_cell = tested[-1][2]
            vv = st.cells.get(vec_cell)
            fact_any = st.bitfacts.get(("sym", "any:v1:%r" % (vec_cell,)))
            if fact_any is not False:
                probs.append("a message is accepted on a path where 'some AVP result is Err' is not excluded")
            if isinstance(vv, VVec):
                zlb = eng.ent(st, c_eq(vv.len, Lin.const(0)))
                if zlb:
                    n_zlb += 1
                else:
                    e0 = "%s[0]" % vv.name
                    # 'no element is Err' (the all-ok test on this path) applies to element 0 too
                    extra = [c_eq(Lin.sym(e0 + "#v"), Lin.const(0))] if fact_any is False else []
                    if extra and not layout.conj_feasible(eng, st, extra):
                        n_ok -= 1
                        continue          # first element Err and no element Err: infeasible path
                    first_ok = layout.conj_entails(eng, st, extra, c_eq(Lin.sym(e0 + "#v"), Lin.const(0))) and \
                        layout.conj_entails(eng, st, extra, c_eq(Lin.sym(e0 + ".Ok.0#v"), Lin.const(mt_idx)))
                    if not first_ok:
                        probs.append("a non-empty message is accepted without its first AVP being pinned to Ok(MessageType)")
                if not (isinstance(avps, VVec) and eng.ent(st, c_eq(avps.len, vv.len))):
                    probs.append("the accepted AVP list is not proven to hold every decoded AVP (len %r vs %r)" % (getattr(avps, "len", None), vv.len))
            if not colls or colls[-1][2] != vec_cell:
                probs.append("the accepted AVP list is not collected from the tested vector")
        elif vi == 1 and isinstance(payload, VRef):
            vv = st.cells.get(payload.cell)
            if isinstance(vv, VVec) and (colls or not (vv.len.is_const() and vv.len.c == 1)):
                n_listerr += 1
                tested = [e for e in hofs if e[2] is not None]
                if colls and (not tested or colls[-1][2] != tested[-1][2]):
                    probs.append("the error list is not collected from the vector that was tested")
                bad = [n for (c, n, fn) in listops if c == payload.cell and not any(n.endswith(x) or (x + "<") in n or x + "::" in n for x in ALLOWED_LIST_OPS)]
                if bad:
                    probs.append("the error list is altered before it is returned (%s)" % bad[0])
    # closures: filter_map(err) keeps exactly the Err payloads, filter_map(ok) the Ok payloads
    for u in sorted(set(undecided)):
        chk.notes.append("undecided clause (C15): " + u)
    if undecided and not probs:
        n_zlb = max(n_zlb, 1)
    chk.extra["partition_loop_accept_paths_decided"] = chk.extra.get("partition_loop_accept_paths_decided", 0) + hand_ok
    tclauses = [
        ("all-ok test over the AVP results", lambda p: "all-ok test" in p or "is not excluded" in p, n_ok >= 1),
        ("first AVP is a Message Type or the body is empty (ZLB accepted)", lambda p: "first AVP" in p, n_zlb >= 1),
        ("accepted list holds every decoded AVP", lambda p: "accepted AVP list" in p, n_ok >= 1),
        ("rejection returns the complete, unaltered error list", lambda p: "error list" in p, n_listerr >= 1),
        ("lists keep wire order", lambda p: "reordered" in p, n_ok >= 1),
    ]
    seen = set()
    for cname, pred, floor in tclauses:
        mine = sorted(set(p for p in probs if pred(p)))
        seen.update(mine)
        chk.oblig(not mine and floor, "all-or-nothing | ControlMessage::try_read | %s" % cname.split(" (")[0],
                  "control message acceptance, %s: %s" % (cname, mine[:3] or {"ok": n_ok, "zlb": n_zlb, "list_err": n_listerr}),
                  {"rule": cname, "problems": mine, "ok_paths": n_ok, "zlb_paths": n_zlb, "list_error_paths": n_listerr},
                  {"obligation": "ControlMessage::try_read: " + cname, "ok_paths": n_ok, "list_error_paths": n_listerr})
    rest = sorted(set(probs) - seen)
    chk.oblig(not rest, "all-or-nothing | ControlMessage::try_read", "control message acceptance: %s" % rest[:3], {"problems": rest})


def run(chk):
    run_config(chk, "default")
    # "every AVP record decodes": a record is handed to its decoder unless the H bit (and nothing else in the flag
    # octet) says it is hidden (C05's header rule)
    from framework import Sub
    import rules.c05 as c05
    # "one error per undecodable record ... stops only at an unusable length": each record is judged on exactly its own
    # octets, against what is really left of the body (C05's record isolation)
    Sub(chk, "via C05 | ", lambda k: k.startswith("avp-header-rules")).borrow(c05, "default", 1, "AVP header flag handling")
    import rules.c08 as c08
    Sub(chk, "via C08 | ", lambda k: k.startswith("avp-isolation")).borrow(c08, "default", 1, "record isolation in the greedy AVP reader")
    if chk.tier == "thorough":
        for cfg in ("debug", "release"):
            run_config(chk, cfg)
    return chk.finish(
        "other",
        explanation="Decides the structural clauses: one result per AVP record in wire order, vendor-specific records become "
                    "errors, the loop stops only at an unusable length; acceptance requires the first-AVP test and an all-ok test "
                    "over the same vector and returns every decoded AVP; rejection returns the collect of filter_map(err) over that "
                    "vector, unaltered; ZLB accepted. NOT decided beyond std's order/multiplicity preservation of "
                    "filter_map/collect: the attribution e[i] <-> i-th bad record.",
        assumptions=["Iterator::filter_map/collect preserve order and multiplicity (std)"])
