"""C05 the decoder accepts the specified language (structural clauses).

1. per AVP kind: the set of accepting decoder layouts (field order, widths, reserved octets skipped,
   optional tails, variable remainder, UTF-8 requirement) == spec/avp_formats.json
2. minimum payload length: the least L with a feasible accepting path == spec minimum
3. header acceptance rules of the strict decoder: control needs T,L,S set and P,O clear, version 2,
   reserved bits clear; data needs T clear; vendor id 0 for every accepted AVP; first AVP Message Type
4. non-influence: AVP M bit and AVP reserved bits are never branched on"""
import json
import os
from rules.common import *
from lenflow import State
from framework import VERIF
import layout
import tables
from rules.c04 import reader_paths


def load(name):
    return json.load(open(os.path.join(VERIF, "spec", name)))


def match_reader(got, want):
    if len(got) != len(want):
        return False
    for g, w in zip(got, want):
        if w[0] == "enum":
            if not (g[0] in ("read", "int") and g[1] == w[1]):
                return False
        elif tuple(g) != tuple(w):
            return False
    return True


def spec_parse(items, L):
    """layout the specification assigns to a payload of exactly L octets, or None when it is too short"""
    seq = []
    rem = [L]

    def walk(items):
        for it in items:
            k = it["k"]
            if k in ("int", "enum"):
                if rem[0] < it["w"]:
                    return False
                rem[0] -= it["w"]
                seq.append((k, it["w"], it["f"]))
            elif k == "zero":
                if rem[0] < it["n"]:
                    return False
                rem[0] -= it["n"]
                seq.append(("zero", it["n"]))
            elif k == "bytes":
                if rem[0] < it["n"]:
                    return False
                rem[0] -= it["n"]
                seq.append(("bytes", it["n"], it["f"]))
            elif k == "rest":
                if rem[0] < it.get("min", 1):
                    return False
                rem[0] = 0
                seq.append(("rest", it["f"], bool(it.get("utf8"))))
            elif k == "opt":
                if rem[0] >= it["min_present"]:
                    if not walk(it["items"]):
                        return False
        return True
    return layout._merge_zero(seq) if walk(items) else None


LENGTH_ERRS = ("IncompleteAVP", "AVPReadError")


def run_config(chk, config):
    fx = chk.facts(config)
    a = Anchors(chk, fx)
    if not (a.need("msg_try_read_validate", "avp_greedy", "decode_avp", "header_try_read") and a.need_floors()):
        return
    spec = load("avp_formats.json")
    hs = load("headers.json")
    L0 = Lin.sym("L(reader.*)")
    for vname, rf in sorted(a.payload_readers.items()):
        sp = spec.get(vname)
        if not chk.require_anchor(sp is not None, "spec entry for %s" % vname):
            continue
        eng = new_engine(chk, fx)
        rets = eng.analyse(rf["key"], name="%s::try_read[%s]" % (vname, config))
        record_engine(chk, eng, "%s::try_read [%s]: %d paths" % (vname, config, len(rets)))
        got = []
        lo_min = None
        for s, v in rets:
            vi, payload = result_parts(v)
            if vi != 0:
                continue
            c = layout.canon_reader(eng, s, layout.rtokens(eng, s), payload)
            got.append(c)
            lo, hi = eng.bounds(s, L0)
            if lo is not None:
                lo_min = lo if lo_min is None else min(lo_min, lo)
        wants = [seq for seq, pres in layout.spec_sequences(sp["items"])]
        missing = [w for w in wants if not any(match_reader(g, w) for g in got)]
        extra = [g for g in got if not any(match_reader(g, w) for w in wants)]
        chk.oblig(not missing and not extra and bool(got), "layout | %s::try_read" % vname,
                  "%s decoder layout differs from RFC 2661: accepts %s; specified %s" % (vname, extra or got[:3], missing or wants),
                  {"rule": "fields in specified order/width, reserved octets skipped, optional tails, remainder, UTF-8 where specified",
                   "decoder_layouts": got[:8], "spec_layouts": wants, "unmatched_spec": missing, "unspecified_decoder": extra[:4]},
                  {"obligation": "%s: accepting decoder layouts equal the specified ones" % vname, "layouts": got[:2]})
        # exact per-length comparison for every payload length around the format's boundaries
        mism = []
        top = sp["min"] + 8
        for L in range(0, top + 1):
            want = spec_parse(sp["items"], L)
            extra_c = [c_eq(L0, Lin.const(L))]
            oks = []
            len_rejects = []
            n_results = 0
            for s2, v2 in rets:
                if not layout.conj_feasible(eng, s2, extra_c):
                    continue
                n_results += 1
                vi2, p2 = result_parts(v2)
                if vi2 == 0:
                    oks.append(layout.canon_reader(eng, s2, layout.rtokens(eng, s2), p2))
                else:
                    consumed = Lin.const(0)
                    for t in layout.rtokens(eng, s2):
                        if t.get("ok", True):
                            consumed = consumed + t["n"]
                    nm = tables.variant_name(eng, p2)
                    need = L
                    if want is not None and not any(x[0] == "rest" for x in want):
                        need = sum(x[1] for x in want)
                    # a rejection after everything the format needs was read is about a value (code, UTF-8), not a length
                    if nm in LENGTH_ERRS and not layout.conj_entails(eng, s2, extra_c, c_eq(consumed, Lin.const(need))):
                        len_rejects.append(nm)
            if want is None:
                if oks:
                    mism.append("length %d: accepted as %s, the format needs more octets" % (L, oks[0]))
                elif not n_results and not eng.unmodelled and not eng.aborted:
                    # too short for the format: the answer must be an error value, and there is no return path at all
                    mism.append("length %d: the decoder does not return (the format says: rejected as too short)" % L)
            else:
                if not oks or not all(match_reader(g, want) for g in oks):
                    mism.append("length %d: decoded as %s, specified %s" % (L, oks[:1] or "rejected", want))
                elif len_rejects:
                    mism.append("length %d: can be rejected for its length (%s) although the format fits" % (L, len_rejects[0]))
        chk.oblig(not mism, "by-length | %s::try_read" % vname,
                  "%s: accept/reject or layout differs from the format for some payload length: %s" % (vname, mism[:2]),
                  {"rule": "for every payload length L: accepted iff the format fits, with the layout the format assigns to L", "mismatches": mism[:6]},
                  {"obligation": "%s: exact agreement with the format for payload lengths 0..%d" % (vname, top)})
        chk.oblig(lo_min == sp["min"], "min-length | %s::try_read" % vname,
                  "%s accepts payloads from %s octets, the format needs at least %s" % (vname, lo_min, sp["min"]),
                  {"rule": "least accepted payload length == specified minimum", "got": lo_min, "spec": sp["min"]},
                  {"obligation": "%s: minimum accepted payload length is %s" % (vname, sp["min"])})
    # ---- header acceptance rules (strict options)
    engr, rrets = reader_paths(chk, fx, a)
    f = hs["flags"]
    n_ctrl = n_data = 0
    bad = []
    for s, v in rrets:
        vi, payload = result_parts(v)
        if vi != 0:
            continue
        rt = layout.rtokens(engr, s)
        fsym = next(iter(rt[0]["val"].lin.t)) if rt and rt[0]["k"] == "read" and rt[0]["n"].c == 2 else None
        kind = tables.variant_name(engr, payload)
        facts = {k: val for (sym, k), val in s.bitfacts.items() if sym == fsym}
        need = {b: False for b in f["reserved"]}
        if kind == "Control":
            n_ctrl += 1
            need.update({f["T"]: True, f["L"]: True, f["S"]: True, f["P"]: False, f["O"]: False})
        elif kind == "Data":
            n_data += 1
            need.update({f["T"]: False})
        else:
            bad.append("accepting path with undetermined message kind")
            continue
        for b, val in need.items():
            if facts.get(b) is not val:
                bad.append("%s accepted without requiring flag bit %d == %s" % (kind, b, int(val)))
        # version nibble == 2
        q, r = engr.divmod_const(s, Lin.sym(fsym), 1 << f["version_shift"])
        q2, r2 = engr.divmod_const(s, q, 1 << f["version_bits"])
        layout.canonical_value(engr, s, r2)        # every way of carving out these bits denotes the same value
        if not engr.ent(s, c_eq(r2, Lin.const(f["version"]))):
            bad.append("%s accepted without requiring version %d" % (kind, f["version"]))
        if kind == "Data":
            lv = dict(layout.leaves(engr, s, payload.variants[payload.vidx.c][0]))
            d = lv.get(".data")
            if not (isinstance(d, VSlice) and engr.ent(s, c_le(Lin.const(1), d.len))):
                bad.append("data message accepted with a possibly empty payload")
    chk.oblig(not bad and n_ctrl >= 1 and n_data >= 8, "header-rules | Message::try_read_validate(strict)",
              "strict decoder acceptance rules differ from the specification: %s" % sorted(set(bad))[:4],
              {"rule": "control: T,L,S set, P,O clear; data: T clear; version 2; reserved clear; data payload non-empty", "problems": sorted(set(bad))},
              {"obligation": "strict header acceptance rules", "control_ok_paths": n_ctrl, "data_ok_paths": n_data})
    # ---- greedy loop: vendor id, non-influence of M / reserved AVP flag bits, first AVP
    eng = new_engine(chk, fx)
    probs = []
    stats = {"back": 0}

    def on_loop(frame, head, H, res, havoc, lid):
        if not in_ctx(frame, a.avp_greedy) or not record_loop(res, H.ntrace):
            return
        for b in res["back"]:
            stats["back"] += 1
            evs = b.events()
            reads = [e for e in evs if e[0] == "read"]
            pushes = [e for e in evs if e[0] == "push"]
            hv = AvpHeaderView(eng, b, [e for e in evs[H.ntrace:] if e[0] == "read" and e[1] == "reader.*"])
            if not hv.ok or not pushes:
                probs.append("iteration without the 6 header octets read / without a push")
                continue
            pv = pushes[-1][2]
            vi, _ = result_parts(pv)
            if vi == 0 and not eng.ent(b, c_eq(hv.vendor, Lin.const(0))):
                probs.append("an AVP is accepted although its vendor id is not proven 0")
            o1name, o1off = hv.o1src
            Hb = hs["avp_header"]["flags_octet"]["H"]
            for (sym, k) in b.bitfacts:
                if sym == o1name and o1off <= k < o1off + 6 and k - o1off != Hb:
                    probs.append("decoder branches on AVP flag bit %s (only H may influence the result)" % (k - o1off))
            # the same through a numeric test of a group of flag bits (e.g. `flags >> 1 != 0`)
            defs = b.ghost.get("defs", set())
            for c in b.cons:
                if c[0].key() in defs:
                    continue
                for sym in c[0].t:
                    sp = layout.bitspan(eng, b, Lin.sym(sym)) if sym in layout._divdefs(b) else None
                    if sp is not None and sp[0] == o1name and sp[1] >= o1off and sp[1] + sp[2] <= o1off + 6 \
                            and not (sp[1] == o1off + Hb and sp[2] == 1):
                        probs.append("decoder branches on AVP flag bits %d..%d as a number (only H may influence the result)" % (
                            sp[1] - o1off, sp[1] - o1off + sp[2] - 1))
    eng.hooks["loop"] = on_loop
    eng.analyse(a.avp_greedy["key"], name="AVP::try_read_greedy[%s]" % config)
    chk.oblig(not probs and stats["back"] >= 39, "avp-header-rules | AVP::try_read_greedy",
              "AVP header handling differs from the specification: %s" % sorted(set(probs))[:3],
              {"rule": "vendor id must be 0 for an accepted AVP; M and reserved bits do not influence the result", "problems": sorted(set(probs))},
              {"obligation": "accepted AVPs have vendor id 0; only the H flag bit is branched on", "loop_paths": stats["back"]})
    # ---- AVP header field positions
    e2 = new_engine(chk, fx)
    r2 = e2.analyse(a.header_try_read["key"], name="Header::try_read[%s]" % config)
    okh = False
    for s, v in r2:
        vi, p = result_parts(v)
        if vi != 1:
            continue
        inner = p
        i2, p2 = result_parts(inner)
        if i2 == 0 and isinstance(p2, VAdt):
            inner = p2
        elif i2 == 1:
            continue
        reads = [e for e in s.events() if e[0] == "read"]
        hv = AvpHeaderView(e2, s, reads)
        if not hv.ok or sum(r[2] for r in reads) != 6:
            okh = False
            break
        lv = dict(layout.leaves(e2, s, inner))
        pl = lv.get(".payload_length")
        okh = (isinstance(pl, VInt) and e2.ent(s, c_eq(pl.lin + 6, hv.total)) and
               isinstance(lv.get(".vendor_id"), VInt) and e2.ent(s, c_eq(lv[".vendor_id"].lin, hv.vendor)) and
               isinstance(lv.get(".attribute_type"), VInt) and e2.ent(s, c_eq(lv[".attribute_type"].lin, hv.attr)))
        if not okh:
            break
    chk.oblig(okh, "avp-header-layout | Header::try_read",
              "AVP header is not parsed as flags+length(2: length = (o1>>6)<<8 | o2), vendor id(2), attribute type(2)", {},
              {"obligation": "AVP header field positions and the 10-bit length split"})


def run(chk):
    run_config(chk, "default")
    # the specified language also fixes the extents: declared lengths, offset pad, payload (C08's obligations)
    import rules.c08 as c08
    c08.run_config(chk, "default")
    # "with the specified values": the enumerated-code tables and bit assignments the decoder maps through (C16, C17)
    from framework import Sub
    import rules.c16 as c16
    import rules.c17 as c17
    Sub(chk, "via C16 | ", lambda k: not (" encode" in k)).borrow(c16, "default", 15, "decode-side code tables")
    Sub(chk, "via C17 | ", lambda k: k.startswith(("spec-bit", "accessor", "wire"))).borrow(c17, "default", 12, "capability/type bit assignments")
    # a control message is in the language only if every one of its AVP records is: acceptance at the message level (C15)
    import rules.c15 as c15
    Sub(chk, "via C15 | ", lambda k: k.startswith("all-or-nothing")).borrow(c15, "default", 4, "all-or-nothing acceptance of control messages")
    if chk.tier == "thorough":
        for cfg in ("debug", "release"):
            run_config(chk, cfg)
    return chk.finish(
        "other",
        explanation="Decides conformance of the decoder's SHAPE to the independent spec tables: per-kind accepting layouts, "
                    "minimum lengths, UTF-8 placement, strict header acceptance rules, AVP header positions, vendor-id rule, "
                    "non-influence of the M/reserved AVP bits. Code tables are C16; length/consumption is C08. NOT decided: the "
                    "full language equivalence and value equality on every input (that needs an executable reference), and the "
                    "order in which competing errors are reported.",
        assumptions=["spec/*.json are the reading of RFC 2661 in the crate's bit numbering"])
