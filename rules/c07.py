"""C07 every emitted length field is exact; oversize values are refused, not truncated.

* Control Length: the value back-patched by ControlMessage::write is (W_end - W_start) as 16 bits
  big-endian at the placeholder's offset, the narrowing cast is proven in range (a dominating
  refusal), and between header and patch only AVP::write emits (tiling).
* AVP length: the two octets back-patched by AVP::write rejoin (by the decoder's split) to
  W_end - W_start, 10 bits, narrowing proven; M bit set, H only for Hidden, reserved bits zero.
* get_length: for every variant and presence partition 6 + get_length() = octets AVP::write appends.
* hide: the stored original length = 6 + octets of the inner encoding - 2, narrowing proven.
* refusal, not truncation: every narrowing cast on the encode paths is discharged."""
from rules.common import *
from lenflow import State
import layout


def octet_extraction(o):
    """`x as u8` is the idiom for taking the low octet of a length; what it may drop is covered by the
    rejoin obligation (the octets must rejoin to the exact number of octets emitted)"""
    return bool(o.samples) and all("to fit u8" in (s.get("detail") or "") for s in o.samples)


def elems_of(eng, pdesc, st=None):
    if pdesc[0] == "elems":
        return list(pdesc[1])
    if pdesc[0] == "be" and isinstance(pdesc[1], VInt) and pdesc[2] and st is not None:
        # the octets of `x.to_be_bytes()`: the base-256 digits of x
        arr = VArr(pdesc[2], None, None, pdesc)
        return [eng.unknown_elem(st, arr, i) for i in range(pdesc[2])]
    if pdesc[0] == "const":
        return [eng.const_int(eng.u8_ty(), c) for c in pdesc[1]]
    return None


def encode_engine(chk, fx):
    eng = new_engine(chk, fx)
    return eng


def run_config(chk, config):
    fx = chk.facts(config)
    a = Anchors(chk, fx)
    if not (a.need("ctrl_write", "avp_write", "avp_get_length", "avp_hide", "avp_make_fl") and a.need_floors()):
        return
    W0 = Lin.sym("W(writer.*)")

    # ---------------- AVP::write: length octets, flags, and get_length
    eng = encode_engine(chk, fx)
    rets = eng.analyse(a.avp_write["key"], name="AVP::write[%s]" % config)
    record_engine(chk, eng, "AVP::write [%s]: %d return paths" % (config, len(rets)))
    chk.add_engine_obligs(eng, ("narrow",), "C07 no truncating cast of a length", allow=octet_extraction)
    engl = encode_engine(chk, fx)
    lrets = engl.analyse(a.avp_get_length["key"], name="AVP::get_length[%s]" % config)
    engl.ranges.update(eng.ranges)
    eng.ranges.update(engl.ranges)
    hidden_idx = [i for i, (n, k, t) in enumerate(a.variants) if n == "Hidden"][0]
    n_paths = 0
    seen_variants = set()
    for st, _ in rets:
        ev = st.events()
        pats = [e for e in ev if e[0] == "wat"]
        wr = st.cells.get(("obj", "writer"))
        vidx_lin = Lin.sym("self.*#v")
        vb = eng.bounds(st, vidx_lin)
        vname = a.variants[vb[0]][0] if vb[0] is not None and vb[0] == vb[1] else "?"
        seen_variants.add(vname)
        n_paths += 1
        key = "avp-length | AVP::write | %s" % vname
        if len(pats) != 1 or not isinstance(wr, VWriter):
            chk.oblig(False, key, "AVP::write path for %s does not back-patch exactly once" % vname, {"patches": len(pats)})
            continue
        _, wid, (plen, pdesc), off, site, okpre, Wat = pats[0]
        total = wr.W - W0
        els = elems_of(eng, pdesc, st)
        good = eng.ent(st, c_eq(off.lin, W0)) and plen == Lin.const(2) and els is not None and len(els) == 2
        why = "patch is not 2 octets at the AVP's first octet"
        if good:
            o1, o2 = els
            q1, r1 = eng.divmod_const(st, o1.lin, 64)
            good = eng.ent(st, c_eq(q1.scale(256) + o2.lin, total))
            why = "octets (%r, %r) do not rejoin (decoder split: (o1>>6)<<8 | o2) to the %r octets emitted" % (o1.lin, o2.lin, total)
            if good:
                bits = eng.bits_of(o1)
                is_hidden = (vname == "Hidden")
                want = [1, 1 if is_hidden else 0, 0, 0, 0, 0]
                got = list(bits[:6])
                if any(b is None for b in got):
                    # assembled arithmetically (64*msb + 2*h + m): read the six low binary digits off the number
                    got = []
                    cur = o1.lin
                    for _k in range(6):
                        cur, d_ = eng.divmod_const(st, cur, 2)
                        lo_d, hi_d = eng.bounds(st, d_)
                        got.append(lo_d if (lo_d is not None and lo_d == hi_d) else None)
                good = got == want
                why = "flag bits M,H,reserved of the first octet are %s, expected %s" % (got, want)
        chk.oblig(good, key, "AVP::write(%s): %s" % (vname, why),
                  {"rule": "10-bit AVP length = octets emitted; M=1, H iff Hidden, reserved 0", "variant": vname, "path": st.notes()[-6:]},
                  {"obligation": "AVP::write(%s): back-patched length/flags exact" % vname, "emitted": repr(total)})
        # get_length agreement
        matched = 0
        for ls, lv in lrets:
            if not isinstance(lv, VInt):
                continue
            # same symbolic self: conjunction of both path conditions
            consistent = all(ls.bitfacts.get(k, v) == v for k, v in st.bitfacts.items())
            if not consistent or not layout.conj_feasible(eng, st, ls.cons):
                continue
            matched += 1
            ok = layout.conj_entails(eng, st, ls.cons, c_eq(lv.lin + 6, total))
            chk.oblig(ok, "get_length | %s | %s" % (vname, "/".join(x for x in ls.notes()[-2:])),
                      "AVP::get_length() + 6 = %r differs from the %r octets AVP::write emits for %s" % (lv.lin + 6, total, vname),
                      {"rule": "|encode(a)| = 6 + a.get_length()", "variant": vname, "writer_path": st.notes()[-5:], "length_path": ls.notes()[-5:]},
                      {"obligation": "6 + get_length == octets emitted (%s)" % vname, "value": repr(total)})
        chk.oblig(matched >= 1, "get_length | %s | no-matching-path" % vname, "no get_length path matches writer path %s" % st.notes()[-3:], {})
    chk.require_anchor(len(seen_variants - {"?"}) >= 40, "AVP::write analysed for 40 variants (found %d)" % len(seen_variants - {"?"}))

    # refusal exists for AVP > 1023: a panic is reachable in make_flags_and_length / AVP::write
    ref = [o for o in eng.obligs.values() if o.kind in ("panic-reach", "unwrap") and o.failed]
    chk.oblig(bool(ref), "refusal | AVP::write", "AVP::write has no refusing (panicking) path for an oversize AVP", {"rule": "oversize is refused"},
              {"obligation": "a refusal path exists for AVPs over 1023 octets", "site": ref[0].key() if ref else None})

    # ---------------- ControlMessage::write
    eng = encode_engine(chk, fx)
    outside = []

    def on_w(st, site, wid, item, val):
        # octets that ControlMessage::write (or a helper of it) emits itself must all lie inside the 12-octet header:
        # anything it emits later would sit between or after the AVPs
        frame = site[0]
        if any("AVP::write" in part for part in frame.ctxname.split(" > ")[1:]):
            return
        wr_ = st.cells.get(("obj", "writer"))
        if not (isinstance(wr_, VWriter) and eng.ent(st, c_le(wr_.W - W0, Lin.const(12)))):
            outside.append(frame.ctxname)
    eng.hooks["w"] = on_w
    rets = eng.analyse(a.ctrl_write["key"], name="ControlMessage::write[%s]" % config)
    record_engine(chk, eng, "ControlMessage::write [%s]: %d return paths" % (config, len(rets)))
    chk.add_engine_obligs(eng, ("narrow",), "C07 no truncating cast of a length", allow=octet_extraction)
    for st, _ in rets:
        ev = st.events()
        toks = [e for e in ev if e[0] in ("w", "wat")]
        wr = st.cells.get(("obj", "writer"))
        total = wr.W - W0
        own = [e for e in toks if own_site(e[4])]
        pats = [e for e in own if e[0] == "wat"]
        good = len(pats) == 1 and toks[-1] is pats[0]
        why = "the Length back-patch is not the single, last writer operation of ControlMessage::write"
        if good:
            _, wid, (plen, pdesc), off, site, okpre, Wat = pats[0]
            be = layout.as_be(eng, st, pdesc)
            good = eng.ent(st, c_eq(off.lin, W0 + 2)) and plen == Lin.const(2) and be is not None and be[1] == 2
            why = "patch is not a 16-bit big-endian value at offset 2 of the message (%r at %r)" % (pdesc, off.lin)
            if good:
                good = eng.ent(st, c_eq(be[0], total)) and eng.ent(st, c_eq(Wat, wr.W))
                why = "patched Length %r is not the %r octets emitted" % (be[0], total)
        chk.oblig(good, "ctrl-length | ControlMessage::write", "ControlMessage::write: %s" % why,
                  {"rule": "Length = W_end - W_start, 16 bits big-endian, patched at the placeholder", "path": st.notes()[-6:]},
                  {"obligation": "control Length field = octets emitted", "emitted": repr(total)})
        # header is 12 octets before the first AVP: tokens by ControlMessage::write itself
        hdr = [e for e in own if e[0] == "w"]
        wid_ = {"write_u8": 1, "write_u16_be": 2, "write_u32_be": 4, "write_u64_be": 8}
        hsz = sum((wid_.get(e[2], 99) if e[2] != "bytes" else (e[3][0].c if e[3][0].is_const() else 99)) for e in hdr)
        chk.oblig(hsz == 12, "ctrl-header | ControlMessage::write", "control header emitted by ControlMessage::write is %d octets, not 12" % hsz,
                  {"tokens": [e[2] for e in hdr]}, {"obligation": "12 header octets, then only AVP::write emits"})
    chk.oblig(not outside, "tiling | ControlMessage::write", "octets are emitted between the control header and the Length patch outside AVP::write: %s" % outside[:2],
              {"rule": "AVPs tile the body: only AVP::write emits between header and end", "contexts": outside[:5]},
              {"obligation": "AVPs tile the control message body exactly"})
    ref = [o for o in eng.obligs.values() if o.kind in ("panic-reach", "unwrap") and o.failed and not any("AVP::write" in c for c in o.contexts)]
    chk.oblig(bool(ref), "refusal | ControlMessage::write", "ControlMessage::write has no refusing path for a message over 65535 octets", {},
              {"obligation": "a refusal path exists for messages over 65535 octets"})

    # ---------------- hide: stored original length = total length of the original AVP
    from hiding import Extract, plaintext_facts
    from rules.c11 import key_facts, xor_facts
    eng = encode_engine(chk, fx)
    X = Extract(eng, a.avp_hide)
    record_engine(chk, eng, "AVP::hide [%s]: %d return paths" % (config, len(X.rets)))
    chk.add_engine_obligs(eng, ("narrow",), "C07 no truncating cast of a length", allow=octet_extraction, only_fns=lambda o: o.fn.endswith("AVP::hide"))
    dests = set(x["dest"] for x in xor_facts(eng, X, key_facts(eng, X)[1]))
    pf = plaintext_facts(eng, X, dests)
    bad = [p for f in pf for p in f["problems"] if "original-length" in p or "16-bit" in p or "unknown" in p]
    chk.oblig(not bad and len(pf) >= 39, "hide-length | AVP::hide",
              "hide stores an original length that is not 6 + |value|: %s" % (sorted(set(bad))[:2] or "plaintext buffer not found (%d paths)" % len(pf)),
              {"rule": "original length subfield = total length of the original AVP"},
              {"obligation": "hide: original-length subfield = 6 + |payload| for all 39 kinds", "paths": len(pf)})

def run(chk):
    run_config(chk, "default")
    if chk.tier == "thorough":
        for cfg in ("debug", "release"):
            run_config(chk, cfg)
    return chk.finish(
        "proof",
        explanation="Linear equalities between the back-patched values and the writer's length ghost (W_end - W_start), bit "
                    "provenance of the AVP flag octet, and per-variant/per-presence equality 6 + get_length() = octets emitted; "
                    "every narrowing cast on an encode path must be discharged by a proven range (dominating refusal).",
        assumptions=["Writer contract (C18 for VecWriter)"])
