"""C17 bitmask AVPs: accessors return the constructor's arguments; all 32 bits survive the wire.

Bit provenance (E2): `new(p1,p2)` must yield a word whose only non-zero bits are bit k1 = p1 and
bit k2 = p2; the accessor `is_<p>` must return exactly bit k(p) of the stored word and depend on no
other bit; positions are compared with spec/bitmasks.json; the decoder stores the 32-bit word it
read and the encoder emits the stored word."""
import json
import os
from rules.common import *
from lenflow import State
from framework import VERIF


def run_config(chk, config):
    fx = chk.facts(config)
    a = Anchors(chk, fx)
    spec = json.load(open(os.path.join(VERIF, "spec", "bitmasks.json")))
    kinds = [k for k in spec if not k.startswith("_")]
    for kind in kinds:
        akey = [k for (n, k, t) in a.variants if n == kind]
        if not chk.require_anchor(len(akey) == 1 and akey[0], "AVP kind %s" % kind):
            continue
        suffix = akey[0].split("::", 1)[1]
        new = find_fn(fx, suffix, "new")
        if not chk.require_anchor(new is not None, "%s::new" % kind):
            continue
        pnames = new_names = None
        eng = new_engine(chk, fx)
        pnames = eng.arg_names(new)
        chk.require_anchor(len(pnames) == 2, "%s::new takes two flags" % kind)
        rets = eng.analyse(new["key"], name="%s::new" % kind)
        record_engine(chk, eng, "%s::new: %d paths" % (kind, len(rets)))
        ctor = {}
        shape_ok = len(rets) >= 1
        for st, v in rets:
            data = v.variants[0][0] if isinstance(v, VAdt) and v.variants.get(0) else None
            bits = eng.bits_of(data) if isinstance(data, VInt) else None
            if bits is None:
                shape_ok = False
                continue
            cur = {}
            for k, b in enumerate(bits):
                if b == 0:
                    continue
                if isinstance(b, tuple) and b[0] == "b" and b[1] in pnames and b[2] == 0:
                    cur.setdefault(b[1], []).append(k)
                else:
                    shape_ok = False
            for p, ks in cur.items():
                ctor.setdefault(p, set()).update(ks)
        if not (shape_ok and all(len(ks) == 1 for ks in ctor.values()) and set(ctor) == set(pnames)):
            # a constructor that branches on its arguments (`flag.then_some(MASK).unwrap_or_default()`): every path has a
            # constant word; bit k must be set on exactly the paths on which one particular argument is true
            rows = []
            for st, v in rets:
                data = v.variants[0][0] if isinstance(v, VAdt) and v.variants.get(0) else None
                if not (isinstance(data, VInt) and data.lin.is_const()):
                    rows = None
                    break
                asg = {p_: st.bitfacts.get((p_, 0)) for p_ in pnames}
                rows.append((asg, data.lin.c))
            if rows and all(all(x is not None for x in asg.values()) for asg, _w in rows) and len(rows) == 2 ** len(pnames):
                alt = {}
                ok_alt = True
                for k in range(32):
                    col = [(asg, (w_ >> k) & 1) for asg, w_ in rows]
                    if all(b_ == 0 for _a, b_ in col):
                        continue
                    owners = [p_ for p_ in pnames if all(b_ == (1 if asg[p_] else 0) for asg, b_ in col)]
                    if len(owners) == 1:
                        alt.setdefault(owners[0], set()).add(k)
                    else:
                        ok_alt = False
                if ok_alt:
                    ctor = alt
                    shape_ok = True
        chk.oblig(shape_ok and all(len(ks) == 1 for ks in ctor.values()) and set(ctor) == set(pnames),
                  "ctor-shape | %s::new" % kind,
                  "%s::new does not build a word with exactly one bit per argument and zeros elsewhere (%s)" % (kind, {p: sorted(k) for p, k in ctor.items()}),
                  {"rule": "constructor sets exactly bit k(p) for each parameter p", "bits": {p: sorted(k) for p, k in ctor.items()}},
                  {"obligation": "%s::new: each argument lands in exactly one bit, all other bits zero" % kind,
                   "bits": {p: sorted(k) for p, k in ctor.items()}})
        # accessors
        acc = {}
        for f in fx.raw["fns"]:
            if f.get("container") == "inherent" and "self_ty" in f and f.get("item", "").startswith("is_"):
                t = fx.types[f["self_ty"]]
                if t["k"] == "adt" and t["key"] == akey[0]:
                    acc[f["item"][3:]] = f
        chk.require_anchor(len(acc) >= 2, "%s has >= 2 is_* accessors" % kind)
        for p in pnames:
            f = acc.get(p)
            if not chk.require_anchor(f is not None, "%s::is_%s (accessor named after constructor parameter)" % (kind, p)):
                continue
            e2 = new_engine(chk, fx)
            st = State()
            D = e2.named_int(e2.find_type(lambda t: t["k"] == "int" and t["n"] == "u32"), "D", bits_sym=True)
            st.cells[("obj", "self")] = VAdt(f["self_ty"], Lin.const(0), {0: (D,)})
            r2 = e2.analyse(f["key"], args=[VRef(("obj", "self"))], state=st, name="%s::is_%s" % (kind, p))
            got = None
            single = len(r2) == 1 and isinstance(r2[0][1], VBool) and r2[0][1].f[0] == "bit" and r2[0][1].f[1] == "D"
            if single:
                got = r2[0][1].f[2]
            elif r2 and all(isinstance(v, VBool) and v.f[0] == "const" for _, v in r2):
                # accessor written with branches: the branch conditions are the bits it reads
                ks = set()
                for s_, v_ in r2:
                    ks.update(k for (sym, k) in s_.bitfacts if sym == "D")
                if len(ks) == 1:
                    k = ks.pop()
                    if all(v_.f[1] == s_.bitfacts.get(("D", k)) for s_, v_ in r2):
                        got = k
                        single = True
            if not single and len(r2) == 1 and isinstance(r2[0][1], VBool):
                # any other way of testing one bit (`data & MASK != 0`, `matches!((data >> k) & 1, 1)`): the bit whose value
                # decides the result both ways
                s_, v_ = r2[0]
                hits = []
                for k in range(32):
                    a1 = e2.assume(s_.fork(), ("bit", "D", k), True)
                    a0 = e2.assume(s_.fork(), ("bit", "D", k), False)
                    if a1 and a0 and all(e2.bool_value(x, v_.f) is True for x in a1) and all(e2.bool_value(x, v_.f) is False for x in a0):
                        hits.append(k)
                if len(hits) == 1:
                    got = hits[0]
                    single = True
            if not single and len(r2) >= 2 and all(isinstance(v_, VBool) and v_.f[0] == "const" for _s, v_ in r2):
                # branches on a number carved out of the word (`matches!((data >> k) & 1, 1)`): the bit whose value selects
                # exactly the paths that return true
                hits = []
                for k in range(32):
                    ok_k = True
                    seen_t = seen_f = False
                    for s_, v_ in r2:
                        f1 = bool(e2.assume(s_.fork(), ("bit", "D", k), True))
                        f0 = bool(e2.assume(s_.fork(), ("bit", "D", k), False))
                        want_t = v_.f[1] is True
                        if (f1 and not want_t) or (f0 and want_t):
                            ok_k = False
                            break
                        seen_t |= f1 and want_t
                        seen_f |= f0 and not want_t
                    if ok_k and seen_t and seen_f:
                        hits.append(k)
                if len(hits) == 1:
                    got = hits[0]
                    single = True
            want_ctor = sorted(ctor.get(p, []))
            chk.oblig(single and want_ctor == [got], "accessor | %s::is_%s" % (kind, p),
                      "%s::new puts `%s` in bit %s but is_%s reads bit %s" % (kind, p, want_ctor, p, got),
                      {"rule": "accessor is_<p> returns exactly the bit new() writes for p", "constructor_bit": want_ctor, "accessor_bit": got},
                      {"obligation": "%s: is_%s(new(..)) == %s for all four argument combinations" % (kind, p, p), "bit": got})
            chk.oblig(got == spec[kind].get(p), "spec-bit | %s::is_%s" % (kind, p),
                      "%s::is_%s reads bit %s, the RFC position (crate numbering) is %s" % (kind, p, got, spec[kind].get(p)),
                      {"rule": "accessor bit == spec/bitmasks.json", "got": got, "spec": spec[kind].get(p)},
                      {"obligation": "%s::is_%s reads the RFC bit" % (kind, p), "bit": got})
        # wire: all 32 bits survive
        rd, wr = a.payload_readers.get(kind), a.payload_writers.get(kind)
        if chk.require_anchor(rd is not None and wr is not None, "%s codec" % kind):
            e3 = new_engine(chk, fx)
            r3 = e3.analyse(rd["key"], name="%s::try_read" % kind)
            good = False
            n_okp = 0
            all_ok = True
            for st, v in r3:
                vi, payload = result_parts(v)
                if vi == 0:
                    n_okp += 1
                    reads = [e for e in st.events() if e[0] == "read"]
                    data = payload.variants[0][0]
                    if not (len(reads) == 1 and reads[0][2] == 4 and isinstance(data, VInt) and data.lin == reads[0][3].lin):
                        all_ok = False
            good = all_ok and n_okp >= 1
            e4 = new_engine(chk, fx)
            r4 = e4.analyse(wr["key"], name="%s::write" % kind)
            good2 = False
            if len(r4) == 1:
                toks = [e for e in r4[0][0].events() if e[0] == "w"]
                good2 = len(toks) == 2 and toks[1][2] == "write_u32_be" and isinstance(toks[1][3], VInt) and \
                    list(toks[1][3].lin.t.items()) == [("self.*.data", 1)] and toks[1][3].lin.c == 0
            chk.oblig(good and good2, "wire | %s" % kind, "%s does not keep all 32 bits through decode (%s) / encode (%s)" % (kind, good, good2),
                      {"rule": "decoder stores the word read; encoder emits the stored word"},
                      {"obligation": "%s: encode(decode(w)) = w for all 2^32 words" % kind})


def run(chk):
    run_config(chk, "default")
    if chk.tier == "thorough":
        for cfg in ("debug", "release"):
            run_config(chk, cfg)
    return chk.finish("proof", exhaustive=True,
                      explanation="Symbolic bit provenance covers all four boolean combinations and all 2^32 words at once.",
                      assumptions=["spec/bitmasks.json is the reading of RFC 2661 4.4.3/4.4.4 in the crate's bit numbering"])
