"""C11 hide then reveal returns the AVP (structural necessary conditions, by cross-checking hide and
reveal as siblings; the equation over all values needs MD5/XOR semantics over values and is NOT decided).

1. plaintext shape built by hide: len16 | payload | length padding | alignment prefix, total a
   multiple of 16, alignment 0..15 octets
2. the MD5 inputs agree: first key = type(2) | secret | random vector in both; chain key of block i =
   secret | buffer[16(i-1), 16i) in both
3. XOR alignment: buffer[16 i + j] ^= digest[j] for j in 0..16, with the digest of that block's key
4. chain dependence (array segmentation by loop direction): hide walks blocks upwards, so the key
   block i-1 has already been XORed (ciphertext); reveal walks downwards, so block i-1 has not been
   XORed yet (still ciphertext); block 0 is processed before the chain in hide and after it in reveal
5. identity on the other variant; reveal reads the length at offset 0 and carves total-6 octets"""
from rules.common import *
from lenflow import State
import layout
import tables
from hiding import Extract, norm_key


def extract_pair(chk, fx, a, config):
    engh = new_engine(chk, fx)
    H = Extract(engh, a.avp_hide)
    record_engine(chk, engh, "AVP::hide [%s]: %d return paths, %d loop analyses" % (config, len(H.rets), len(H.loops)))
    engr = new_engine(chk, fx)
    st = State()
    selfv = engr.symval(st, a.avp_reveal["body"]["locals"][1], "self")
    R = Extract(engr, a.avp_reveal, selfv, st)
    record_engine(chk, engr, "AVP::reveal [%s]: %d return paths, %d loop analyses" % (config, len(R.rets), len(R.loops)))
    return engh, H, engr, R, selfv


def key_facts(eng, X):
    """(first-key shapes, chain-key facts) of one function"""
    first = set()
    chain = []
    for st, did, d in X.md5s:
        nk = norm_key(eng, d)
        if nk and nk[0][0] == "type16":
            first.add(tuple((p[0], p[1]) if p[0] == "arg" else (p[0],) for p in nk))
    for c in X.chain_loops():
        nk = norm_key(eng, c["md5"][2])
        shape = tuple((p[0], p[1]) if p[0] == "arg" else (p[0],) for p in nk)
        blk = [p for p in nk if p[0] == "block"]
        rel = None
        ln = None
        if len(blk) == 1:
            # the key block sits directly in front of the block that is XORed with this key: found through the XOR
            # loops that use this digest (base = data index - key index), not through the loop counter
            start, ln = blk[0][2], blk[0][3]
            linked = []
            for x in X.xor_loops():
                if x["xor"][3] == c["md5"][1] and any(e is c["md5"] for e in x["state"].events()):
                    base = x["xor"][2] - x["xor"][4]
                    linked.append(eng.ent(x["state"], c_eq(base, start + 16)))
            if linked:
                rel = -16 if all(linked) else "key block is not the block in front of the block XORed with it"
            else:
                rel = "unlinked"      # the digest is stored and used elsewhere: not decided here
        chain.append({"range": c.get("range"), "shape": shape, "rel": rel, "len": ln, "back": c["back"], "order": c["order"], "item": c["item"], "lid": c["lid"], "done": c["done"],
                      "buf": blk[0][1] if blk else None, "did": c["md5"][1], "state": c["state"], "loop": c.get("loop"), "start": c.get("start")})
    return first, chain


def xor_facts(eng, X, chain):
    out = []
    for x in X.xor_loops():
        st = x["state"]
        _, dest, di, dig, si = x["xor"][:5]
        j = x["j"].lin
        base = di - si
        kind = None
        same_buf = False
        known = False
        lastmd5 = [e for e in st.events() if e[0] == "md5"]
        mine = [e for e in lastmd5 if e[1] == dig]
        if mine:
            known = True
            nk = norm_key(eng, mine[-1][2])
            blk = [p for p in nk if p[0] == "block"]
            if nk and nk[0][0] == "type16":
                if eng.ent(st, c_eq(base, Lin.const(0))):
                    kind = "first"
            elif len(blk) == 1:
                if eng.ent(st, c_eq(base, blk[0][2] + 16)):
                    kind = "chain"
                    same_buf = blk[0][1] == dest
        lo, hi = eng.bounds(st, j)
        out.append({"range": x.get("range"), "state": st, "kind": kind, "dest": dest, "aligned": si == j, "j": (lo, hi), "order": x["order"], "lid": x["lid"], "done": x["done"],
                    "digest_is_latest": bool(lastmd5) and lastmd5[-1][1] == dig, "base": repr(base), "same_buf": same_buf, "known_digest": known})
    return out


def structure_independent(chk, fx, a, config, engh, H, engr, R, selfv, hx=None):
    """clauses that do not depend on how the block loops are written: plaintext shape, identity, framing, acceptance"""
    skip_plaintext = hx is None
    if hx is None:
        hx = []
    # plaintext shape at the first MD5 of hide
    from hiding import plaintext_facts
    dests = set(x["dest"] for x in hx)
    pf = plaintext_facts(engh, H, dests)
    n_sh = len(pf)
    allp = [p for f in pf for p in f["problems"] if "original-length" not in p]
    shape_ok = not allp
    why = "; ".join(sorted(set(allp))[:2]) or "no plaintext buffer found at the first key"
    if skip_plaintext:
        chk.notes.append("undecided clause (C11): hide's plaintext shape (its block loops are not understood)")
    else:
      chk.oblig(shape_ok and n_sh >= 39, "plaintext | hide", "hide plaintext shape: %s" % why,
              {"rule": "len16 | payload | length padding | alignment prefix (0..15), total multiple of 16"},
              {"obligation": "hide: plaintext = len16|value|lp|ap[..p], p in 0..15, |plaintext| = 16n >= 16", "paths": n_sh})
    # identity on the other variant (hide); reveal's identity and framing are C13
    hidden_idx = [i for i, (n, k, t) in enumerate(a.variants) if n == "Hidden"][0]
    ident = False
    for s, v in H.rets:
        lo, hi = engh.bounds(s, Lin.sym("self#v"))
        if lo == hi == hidden_idx:
            ident = isinstance(v, VAdt) and v.base == "self" and not [e for e in s.events() if e[0] in ("md5", "w")]
    chk.oblig(ident, "identity | hide(Hidden)", "hiding an already hidden AVP does not return it unchanged", {},
              {"obligation": "hide(h) = h for Hidden h"})
    # reveal: length read at offset 0, carve of total-6
    okf = 0
    for s, v in R.rets:
        vi, p = result_parts(v)
        if vi != 0 or not engr.ent(s, c_eq(selfv.vidx, Lin.const(hidden_idx))):
            continue
        from rules.c20 import be16_of_buffer
        evs = [e for e in s.events() if e[0] in ("read", "sub", "skip")]
        subs = [e for e in evs if e[0] == "sub"]
        if not subs:
            continue
        sub = subs[0]
        before = evs[:evs.index(sub)]
        total = None
        if before and before[0][0] == "read" and before[0][2] == 2:
            d = before[0][5]
            if isinstance(d, tuple) and len(d) >= 5 and isinstance(d[3], Lin) and d[3] == Lin.const(0):
                total = before[0][3].lin
        if total is None:
            # length taken by indexing the buffer: total = 256*buf[0] + buf[1]
            cand = sub[2].lin + 6
            if be16_of_buffer(engr, cand):
                total = cand
        start_ok = len(sub) > 5 and isinstance(sub[5], Lin) and engr.ent(s, c_eq(sub[5], Lin.const(2)))
        if total is not None and start_ok and engr.ent(s, c_eq(sub[2].lin + 6, total)):
            okf += 1
        else:
            import os
            if os.environ.get("VERIF_DEBUG"):
                print("FRAMING", total, start_ok, sub, before[:3])
            okf = -10 ** 6
    # reveal accepts every original length that fits (what hide produces always fits)
    over = []
    n_len_err = 0
    for s, v in R.rets:
        vi, p = result_parts(v)
        if vi == 1 and tables.variant_name(engr, p) == "InvalidOriginalAVPLength":
            n_len_err += 1
            reads = [e for e in s.events() if e[0] == "read"]
            fs = engr.variant_fields(s, selfv, hidden_idx)
            val = engr.variant_fields(s, fs[0], 0)[1]
            ln = vec_len_of(engr, s, val)
            if reads and ln is not None:
                tot = reads[0][3].lin
                fits = [c_le(Lin.const(6), tot), c_le(tot, Lin.const(1023)), c_le(tot - 6, ln - 2)]
                if layout.conj_feasible(engr, s, fits):
                    over.append(s.notes()[-3:])
    chk.oblig(not over and n_len_err >= 1, "accept | reveal | original length",
              "reveal can reject (InvalidOriginalAVPLength) an original length that fits inside the decrypted value: %s" % over[:1],
              {"rule": "6 <= total <= 1023 and total-6 <= |value|-2  =>  not rejected for its length", "paths": over[:3]},
              {"obligation": "reveal rejects an original length only when it does not fit", "rejecting_paths": n_len_err})
    chk.oblig(okf >= 39, "framing | reveal", "reveal does not read the original length at offset 0 and carve exactly length-6 octets after it", {},
              {"obligation": "reveal: inverse framing of hide's plaintext", "paths": okf})



def run_config(chk, config):
    fx = chk.facts(config)
    a = Anchors(chk, fx)
    if not (a.need("avp_hide", "avp_reveal") and a.need_floors()):
        return
    engh, H, engr, R, selfv = extract_pair(chk, fx, a, config)
    from hiding import unrecognised_keys
    unrec = {"hide": unrecognised_keys(engh, H), "reveal": unrecognised_keys(engr, R)}
    if unrec["hide"] or unrec["reveal"]:
        for n_, u in unrec.items():
            if u:
                chk.notes.append("undecided clauses (C11): the MD5 inputs of %s are not understood (%s); its key / XOR / chaining / "
                                 "coverage clauses are not decided" % (n_, "; ".join(u)[:160]))
        chk.extra["construction_not_understood"] = {k: v for k, v in unrec.items() if v}
        hx_ = xor_facts(engh, H, key_facts(engh, H)[1]) if not unrec["hide"] else None
        return structure_independent(chk, fx, a, config, engh, H, engr, R, selfv, hx_)
    hf, hc = key_facts(engh, H)
    rf, rc = key_facts(engr, R)
    want_first = {(("type16",), ("arg", "secret"), ("arg", "random_vector.*.value"))}
    chk.oblig(hf == rf and hf == want_first, "first-key | hide vs reveal",
              "the first MD5 input differs: hide %s, reveal %s" % (sorted(hf), sorted(rf)),
              {"rule": "first key = attribute type(2) | secret | random vector on both sides", "hide": sorted(hf), "reveal": sorted(rf)},
              {"obligation": "first key input composition agrees", "shape": sorted(hf)})
    hshapes = set((c["shape"], repr(c["len"])) for c in hc)
    rshapes = set((c["shape"], repr(c["len"])) for c in rc)
    want_chain = {((("arg", "secret"), ("block",)), "16")}
    badrel = sorted(set("%s: %s" % (n_, c["rel"]) for n_, cs in (("hide", hc), ("reveal", rc)) for c in cs if c["rel"] not in (-16, "unlinked")))
    for n_, cs in (("hide", hc), ("reveal", rc)):
        if any(c["rel"] == "unlinked" for c in cs):
            chk.notes.append("undecided clause (C11): %s stores its chain digests and uses them elsewhere; the position of the key block relative to the XORed block is not decided" % n_)
    chk.oblig(hshapes == rshapes == want_chain and bool(hc) and bool(rc) and not badrel, "chain-key | hide vs reveal",
              "the chain MD5 input differs: hide %s, reveal %s (expected secret | the 16-octet block in front of the block being XORed) %s" % (sorted(hshapes, key=str), sorted(rshapes, key=str), badrel[:2]),
              {"rule": "key of block i = secret | block i-1, same composition on both sides", "problems": badrel},
              {"obligation": "chain key input composition and block position agree", "shape": sorted(hshapes, key=str)})
    hx = xor_facts(engh, H, hc)
    rx = xor_facts(engr, R, rc)
    for name, xs in (("hide", hx), ("reveal", rx)):
        unk = [x for x in xs if not x["known_digest"]]
        if unk:
            chk.notes.append("undecided clause (C11): %s XORs with digests whose computation is not on the same path (stored keys); XOR alignment of those loops is not decided" % name)
        kn = [x for x in xs if x["known_digest"]]
        bad = [x for x in kn if not (x["kind"] in ("first", "chain") and x["aligned"] and x["j"] == (0, 15))]
        kinds = set(x["kind"] for x in kn)
        # (with keys carried from somewhere else - a previous round, a stored list - which XOR is "the first block's" cannot be
        # told from the digest: nothing is required of the known ones beyond being well formed)
        need = {"first", "chain"} if not unk else (set() if not kn else {"first"} & set(x["kind"] for x in kn))
        if os.environ.get("VERIF_DEBUG"):
            print("XORDBG", name, "kinds", kinds, "need", need, "unk", len(unk), "kn", len(kn), [(x["kind"], x["known_digest"], x["aligned"], x["j"]) for x in xs][:6])
        chk.oblig(not bad and kinds >= need, "xor | %s" % name,
                  "%s: XOR is not buffer[block start + j] ^= digest_of_that_block[j], j in 0..16: %s" % (name, [(x["kind"], x["base"], x["aligned"], x["j"]) for x in bad][:2]),
                  {"rule": "data index - block start = key index, j over exactly 0..16, digest of that block's key"},
                  {"obligation": "%s: XOR alignment in first-block and chain loops" % name, "loops": len(xs)})
    # chain dependence
    def dep(name, chain, xs, want_back):
        probs = []
        firsts = [x for x in xs if x["kind"] == "first"]
        first_lids = set(x["lid"] for x in firsts)
        chain_lids = set(c["lid"] for c in chain)
        for c in chain:
            # keys computed before any block of the buffer is XORed are keys over the original buffer
            early = bool(xs) and all(c["lid"] in x["done"] for x in xs) and not any(set(x["lid"] for x in xs) & set(c["done"]))
            if early:
                if want_back is False:
                    probs.append("the chain keys are computed before the blocks are encrypted (keys from plaintext)")
                continue
            if c["back"] is None:
                chk.notes.append("undecided clause (C11): %s walk direction of the chain not understood" % name)
                continue
            if c["back"] != want_back:
                probs.append("blocks are walked %s" % ("downwards" if c["back"] else "upwards"))
            if firsts:
                if want_back is False and not (first_lids & set(c["done"])):
                    probs.append("block 0 is not encrypted before the chain starts")
                if want_back is True and (first_lids & set(c["done"])):
                    probs.append("block 0 is decrypted before the chain has finished")
        if firsts and chain:
            if want_back is False and any(chain_lids & set(x["done"]) for x in firsts):
                probs.append("block 0 is encrypted after the chain")
        elif not (firsts or [x for x in xs if not x["known_digest"]]) or not chain:
            probs.append("no first-block / chain loop found")
        # the key block and the XORed block live in the same buffer
        for x in xs:
            if x["kind"] == "chain" and not x["same_buf"]:
                probs.append("key block is read from another buffer than the one being XORed")
        return sorted(set(probs))
    ph = dep("hide", hc, hx, False)
    chk.oblig(not ph, "dependence | hide", "hide: the chain key is not the previous CIPHERTEXT block: %s" % ph,
              {"rule": "ascending walk: block i-1 has already been XORed when it keys block i", "problems": ph},
              {"obligation": "hide: key block i-1 is in state 'xored' (ascending walk, block 0 first)"})
    pr = dep("reveal", rc, rx, True)
    chk.oblig(not pr, "dependence | reveal", "reveal: the chain key is not the previous CIPHERTEXT block: %s" % pr,
              {"rule": "descending walk (or keys taken before any block is XORed): block i-1 still holds ciphertext when it keys block i; block 0 last", "problems": pr},
              {"obligation": "reveal: key block i-1 is in state 'original'"})
    # every block is processed: chain over blocks 1..n-1 with n = |buffer|/16, XOR over j = 0..16
    from hiding import coverage_semantic
    for name, eng_, X_, ch_, xs_ in (("hide", engh, H, hc, hx), ("reveal", engr, R, rc, rx)):
        cp, und = coverage_semantic(eng_, X_, ch_)
        for u in und:
            chk.notes.append("undecided clause (C11): %s %s" % (name, u))
        for x in xs_:
            if x["j"] != (0, 15):
                cp.append("XOR loop covers key octets %s, not 0..15" % (x["j"],))
        chk.oblig(not cp, "coverage | %s" % name, "%s does not process every block/octet: %s" % (name, cp[:2]),
                  {"rule": "the blocks keyed by the chain are exactly blocks 1..n-1 (n = |buffer|/16); XOR over all 16 octets of a block", "problems": cp},
                  {"obligation": "%s: chain covers blocks 1..n-1, XOR loops cover 16 octets" % name})
    structure_independent(chk, fx, a, config, engh, H, engr, R, selfv, hx)


def run(chk):
    run_config(chk, "default")
    # "... and after the hidden AVP has been encoded and decoded": the Hidden wire form and the AVP header codec (C03, C05, C07)
    from framework import Sub
    import rules.c03 as c03
    import rules.c05 as c05
    import rules.c07 as c07
    Sub(chk, "via C03 | ", lambda k: "Hidden" in k or k.startswith("hidden")).borrow(c03, "default", 1, "Hidden AVP decode")
    Sub(chk, "via C05 | ", lambda k: k.startswith("avp-header-layout")).borrow(c05, "default", 1, "AVP header decode")
    Sub(chk, "via C07 | ", lambda k: k.startswith("avp-length") and "Hidden" in k).borrow(c07, "default", 1, "AVP header encode (Hidden)")
    if chk.tier == "thorough":
        for cfg in ("debug", "release"):
            run_config(chk, cfg)
    return chk.finish(
        "other",
        explanation="hide and reveal cross-checked as siblings: same MD5 input compositions and block indices, XOR alignment, "
                    "and the classic loop-dependence argument (ascending vs descending walk) showing both key each block with "
                    "ciphertext; plaintext shape and inverse framing. NOT decided: reveal(hide(a)) = a as an equation over values "
                    "(needs XOR/MD5 semantics over values) and the correctness of the md5 crate.",
        assumptions=["md5::compute is a function of its input octets", "C03 (Hidden wire layout), C13 (reveal totality, announced type)"])
