"""helpers shared by the per-property rules"""
import os
import sys

from facts import find_fn, free_fn, avp_variants, closures_of
from lenflow import Engine
from effects import CallGraph
from absval import *
from lin import Lin, c_le, c_eq, c_lt

_cg = {}


def callgraph(fx):
    if id(fx) not in _cg:
        _cg[id(fx)] = CallGraph(fx)
    return _cg[id(fx)]


class Anchors:
    """public API items the property statements presuppose (fail closed when missing)"""

    def __init__(self, chk, fx):
        self.fx = fx
        self.chk = chk
        g = lambda adt, item, tr=None: find_fn(fx, adt, item, tr)
        self.msg_try_read = g("message::Message", "try_read")
        self.msg_try_read_validate = g("message::Message", "try_read_validate")
        self.msg_write = g("message::Message", "write")
        self.ctrl_try_read = g("control_message::ControlMessage", "try_read")
        self.ctrl_write = g("control_message::ControlMessage", "write")
        self.data_try_read = g("data_message::DataMessage", "try_read")
        self.data_write = g("data_message::DataMessage", "write")
        self.avp_greedy = g("avp::AVP", "try_read_greedy")
        self.avp_write = g("avp::AVP", "write")
        self.avp_hide = g("avp::AVP", "hide")
        self.avp_reveal = g("avp::AVP", "reveal")
        self.avp_get_length = g("avp::AVP", "get_length")
        self.avp_make_fl = g("avp::AVP", "make_flags_and_length")
        self.decode_avp = free_fn(fx, "message::avp::decode_avp")
        self.avp_name = free_fn(fx, "message::avp::avp_name")
        self.header_try_read = g("avp::header::Header", "try_read")
        self.flags_read = g("message::flags::Flags", "read")
        self.flags_new = g("message::flags::Flags", "new")
        self.variants = avp_variants(fx)
        self.payload_readers = {}
        self.payload_writers = {}
        self.payload_lengths = {}
        for vname, akey, ty in self.variants:
            if akey is None:
                continue
            suffix = akey.split("::", 1)[1]
            r = find_fn(fx, suffix, "try_read")
            if r is not None:
                self.payload_readers[vname] = r
            w = find_fn(fx, suffix, "write", "WritableAVP")
            if w is not None:
                self.payload_writers[vname] = w
            q = find_fn(fx, suffix, "get_length", "QueryableAVP")
            if q is not None:
                self.payload_lengths[vname] = q

    def need(self, *names):
        ok = True
        for n in names:
            ok = self.chk.require_anchor(getattr(self, n) is not None, n) and ok
        return ok

    def need_floors(self, variants=40, readers=38, writers=40):
        c = self.chk
        ok = c.require_anchor(len(self.variants) >= variants, "AVP enum has >= %d variants (found %d)" % (variants, len(self.variants)))
        ok = c.require_anchor(len(self.payload_readers) >= readers, ">= %d payload decoders (found %d)" % (readers, len(self.payload_readers))) and ok
        ok = c.require_anchor(len(self.payload_writers) >= writers, ">= %d payload encoders (found %d)" % (writers, len(self.payload_writers))) and ok
        return ok


def new_engine(chk, fx, **opts):
    e = Engine(fx, opts)
    return e


def record_engine(chk, eng, entry):
    chk.analysed["entries"].append(entry)
    for k in eng.obligs:
        chk.analysed["functions"].add(k[1])
    for name, n in eng.unmodelled.items():
        chk.extra.setdefault("unmodelled", {})[name] = chk.extra.setdefault("unmodelled", {}).get(name, 0) + n
    for name, n in getattr(eng, "aborted", {}).items():
        chk.extra.setdefault("unexplored_paths", {})[name] = chk.extra.setdefault("unexplored_paths", {}).get(name, 0) + n
    for name, n in eng.assumed_total.items():
        chk.extra.setdefault("assumed_total", {})[name] = chk.extra.setdefault("assumed_total", {}).get(name, 0) + n


def vec_len_of(eng, st, v):
    """length Lin of a Vec value (VRef to a VVec cell)"""
    if isinstance(v, VRef):
        t = st.cells.get(v.cell)
        if isinstance(t, VVec):
            return t.len
    return None


def result_parts(v):
    """(variant idx or None, payload) of a Result/Option value"""
    if isinstance(v, VAdt) and v.vidx.is_const():
        fs = v.variants.get(v.vidx.c, ())
        return v.vidx.c, (fs[0] if fs else None)
    return None, None


def slice_reader_arg(eng, st, name="input"):
    """&mut SliceReader over an arbitrary byte string (for passes that analyse the real impl)"""
    srty = eng.find_type(lambda t: t["k"] == "adt" and t["key"].endswith("::SliceReader"))
    if srty is None:
        return None
    sl = VSlice(("origin", name), Lin.const(0), eng.len_sym("len(%s)" % name), elem=eng.u8_ty())
    cell = ("obj", "reader")
    st.cells[cell] = VAdt(srty, Lin.const(0), {0: (sl,)})
    return VRef(cell, (), True)
