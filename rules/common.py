"""helpers shared by the per-property rules"""
import os
import sys

from facts import find_fn, free_fn, avp_variants, closures_of
from lenflow import Engine
from effects import CallGraph
from absval import *
from lin import Lin, c_le, c_eq, c_lt

_cg = {}


def callgraph(fx):
    if id(fx) not in _cg:
        _cg[id(fx)] = CallGraph(fx)
    return _cg[id(fx)]


class Anchors:
    """public API items the property statements presuppose (fail closed when missing)"""

    def __init__(self, chk, fx):
        self.fx = fx
        self.chk = chk
        g = lambda adt, item, tr=None: find_fn(fx, adt, item, tr)
        self.msg_try_read = g("message::Message", "try_read")
        self.msg_try_read_validate = g("message::Message", "try_read_validate")
        self.msg_write = g("message::Message", "write")
        self.ctrl_try_read = g("control_message::ControlMessage", "try_read")
        self.ctrl_write = g("control_message::ControlMessage", "write")
        self.data_try_read = g("data_message::DataMessage", "try_read")
        self.data_write = g("data_message::DataMessage", "write")
        self.avp_greedy = g("avp::AVP", "try_read_greedy")
        self.avp_write = g("avp::AVP", "write")
        self.avp_hide = g("avp::AVP", "hide")
        self.avp_reveal = g("avp::AVP", "reveal")
        self.avp_get_length = g("avp::AVP", "get_length")
        self.avp_make_fl = g("avp::AVP", "make_flags_and_length")
        self.decode_avp = free_fn(fx, "message::avp::decode_avp")
        self.avp_name = free_fn(fx, "message::avp::avp_name")
        self.header_try_read = g("avp::header::Header", "try_read")
        self.flags_read = g("message::flags::Flags", "read")
        self.flags_new = g("message::flags::Flags", "new")
        self.variants = avp_variants(fx)
        self.payload_readers = {}
        self.payload_writers = {}
        self.payload_lengths = {}
        for vname, akey, ty in self.variants:
            if akey is None:
                continue
            suffix = akey.split("::", 1)[1]
            r = find_fn(fx, suffix, "try_read")
            if r is not None:
                self.payload_readers[vname] = r
            w = find_fn(fx, suffix, "write", "WritableAVP")
            if w is not None:
                self.payload_writers[vname] = w
            q = find_fn(fx, suffix, "get_length", "QueryableAVP")
            if q is not None:
                self.payload_lengths[vname] = q

    def need(self, *names):
        ok = True
        for n in names:
            ok = self.chk.require_anchor(getattr(self, n) is not None, n, hard=True) and ok
        return ok

    def need_floors(self, variants=40, readers=38, writers=40):
        c = self.chk
        ok = c.require_anchor(len(self.variants) >= variants, "AVP enum has >= %d variants (found %d)" % (variants, len(self.variants)))
        ok = c.require_anchor(len(self.payload_readers) >= readers, ">= %d payload decoders (found %d)" % (readers, len(self.payload_readers))) and ok
        ok = c.require_anchor(len(self.payload_writers) >= writers, ">= %d payload encoders (found %d)" % (writers, len(self.payload_writers))) and ok
        return ok


def new_engine(chk, fx, **opts):
    e = Engine(fx, opts)
    chk.engines.append(e)
    e.used_contracts = chk.used_contracts        # shared: which Reader/Writer contract entries this check's proof applied
    return e


def record_engine(chk, eng, entry):
    chk.analysed["entries"].append(entry)
    for k in eng.obligs:
        chk.analysed["functions"].add(k[1])
    for name, n in eng.unmodelled.items():
        chk.extra.setdefault("unmodelled", {})[name] = chk.extra.setdefault("unmodelled", {}).get(name, 0) + n
    for name, n in getattr(eng, "aborted", {}).items():
        chk.extra.setdefault("unexplored_paths", {})[name] = chk.extra.setdefault("unexplored_paths", {}).get(name, 0) + n
    for name, n in eng.assumed_total.items():
        chk.extra.setdefault("assumed_total", {})[name] = chk.extra.setdefault("assumed_total", {}).get(name, 0) + n


def vec_len_of(eng, st, v):
    """length Lin of a Vec value (VRef to a VVec cell)"""
    if isinstance(v, VRef):
        t = st.cells.get(v.cell)
        if isinstance(t, VVec):
            return t.len
    return None


def result_parts(v):
    """(variant idx or None, payload) of a Result/Option value"""
    if isinstance(v, VAdt) and v.vidx.is_const():
        fs = v.variants.get(v.vidx.c, ())
        return v.vidx.c, (fs[0] if fs else None)
    return None, None


def slice_reader_arg(eng, st, name="input"):
    """&mut SliceReader over an arbitrary byte string (for passes that analyse the real impl)"""
    srty = eng.find_type(lambda t: t["k"] == "adt" and t["key"].endswith("::SliceReader"))
    if srty is None:
        return None
    sl = VSlice(("origin", name), Lin.const(0), eng.len_sym("len(%s)" % name), elem=eng.u8_ty())
    cell = ("obj", "reader")
    st.cells[cell] = VAdt(srty, Lin.const(0), {0: (sl,)})
    return VRef(cell, (), True)


def in_ctx(frame, fn):
    """is this frame the function `fn` itself or something it runs (a helper, a closure, a std iterator consumer such
    as collect / for_each analysed as the loop it is)?"""
    if frame.key == fn["key"]:
        return True
    parts = frame.ctxname.split(" > ")
    short = "::".join(fn["name"].replace("::<T>", "").split("::")[-2:])
    return parts[0] == fn["name"] or short in parts[1:]


def continues_after(eng, frame, head, b):
    """the back-edge states reached when one more iteration is run from back-edge state `b` with ITS values (not the
    loop summary): empty when the loop is certain to stop after the iteration that ended in `b`"""
    loops = eng.loops_of(frame.fn, frame.body)
    loopset = loops.get(head)
    if loopset is None:
        return None
    eng.mute += 1
    try:
        succs = eng.exec_block(frame, b.fork(), head)
        items = [(s, x) for k, s, x in succs if k == "goto"]
        res = eng.explore(frame, items, head, loopset)
        return res["back"]
    except Abort:
        return None
    finally:
        eng.mute -= 1


def record_loop(res, n0, rid="reader.*"):
    """does this loop walk AVP records: some iteration reads from the region reader?"""
    return any(e[0] == "read" and e[1] == rid for b in res["back"] for e in b.events()[n0:])


def own_site(site_info_, inner="AVP::write"):
    """was this writer event emitted by the function under analysis itself (or a helper / closure it runs), as opposed
    to inside a nested `inner` call (an AVP's own encoder)?  Decided from the call context, not the function name, so
    that extracting `write_header()` / `patch_length()` helpers changes nothing."""
    ctx = site_info_.get("ctx") or ""
    return not any(inner in part for part in ctx.split(" > ")[1:])


# ---------------------------------------------------------------- wire views (independent of how the code groups its reads)

def wire_octets(eng, st, reads):
    """the octets delivered by a run of consecutive fixed-width reads, one (Lin, (symbol, bit offset)) per octet.
    A 2/4/8-octet big-endian read of value w contributes the base-256 digits of w, so a header read as
    u8,u8,u16,u16 and the same header read as u16,u16,u16 give views that the linear solver proves equal."""
    out = []
    for e in reads:
        n, val = e[2], e[3]
        if not isinstance(val, VInt):
            return None
        sym = next(iter(val.lin.t)) if len(val.lin.t) == 1 and val.lin.c == 0 else None
        if n == 1:
            out.append((val.lin, (sym, 0)))
            continue
        digs = []
        q = val.lin
        for i in range(n - 1):
            q, r = eng.divmod_const(st, q, 256)
            digs.append(r)
        digs.append(q)          # most significant octet: what is left (bounded by the type)
        digs.reverse()
        for i, d in enumerate(digs):
            out.append((d, (sym, 8 * (n - 1 - i))))
    return out


def wire_int(eng, st, reads, off, width):
    """big-endian integer at octets [off, off+width) of the run of reads; the read's own value when one read covers
    exactly that field"""
    pos = 0
    for e in reads:
        if pos == off and e[2] == width and isinstance(e[3], VInt):
            return e[3].lin
        pos += e[2]
    octs = wire_octets(eng, st, reads)
    if octs is None or len(octs) < off + width:
        return None
    v = Lin.const(0)
    for d, _ in octs[off:off + width]:
        v = v.scale(256) + d
    import layout
    return layout.canonical_value(eng, st, v)


class AvpHeaderView:
    """the six AVP header octets as read from the wire at the start of a greedy-loop iteration: first octet o1
    (M = bit 0, H = bit 1, length bits 9..8 in bits 7..6 - the crate's bit numbering), second octet o2 (length bits
    7..0), vendor id, attribute type."""

    def __init__(self, eng, st, top_reads):
        self.ok = False
        octs = wire_octets(eng, st, top_reads)
        if octs is None or len(octs) < 6:
            return
        self.ok = True
        import layout
        self.o1, self.o1src = octs[0]
        self.o1 = layout.canonical_value(eng, st, self.o1)
        self.o2 = layout.canonical_value(eng, st, octs[1][0])
        q, _r = eng.divmod_const(st, self.o1, 64)
        self.total = q.scale(256) + self.o2          # the 10-bit Length field
        self.vendor = wire_int(eng, st, top_reads, 2, 2)
        self.attr = wire_int(eng, st, top_reads, 4, 2)

    def bit(self, st, k):
        """truth of bit k of the first header octet on this path (None when not decided)"""
        sym, off = self.o1src
        if sym is None:
            return None
        return st.bitfacts.get((sym, off + k))
