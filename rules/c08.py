"""C08 decoding consumes exactly the declared length; bytes beyond it have no influence.

* control: on every accepting path octets consumed (L_entry - L_exit) == the Length field; after the
  AVP region is carved out as a sub-reader the parent reader is not touched again
* data with L bit: consumed == Length on every accepting path; without L: everything is consumed
* AVP isolation: every iteration of the greedy loop consumes exactly 6 + payload length octets of the
  region reader: 4 header reads then exactly one of skip / bytes / sub-reader of payload length
* non-influence of trailing octets: on accepting paths the remaining length is only ever bounded from
  below (every test is `need <= remaining`), and no decoded field depends on it when a length is declared"""
from rules.common import *
from lenflow import State
import layout
import tables
from rules.c04 import strict_options


def run_config(chk, config):
    fx = chk.facts(config)
    a = Anchors(chk, fx)
    if not a.need("msg_try_read_validate", "avp_greedy", "ctrl_try_read", "data_try_read"):
        return
    L0s = "L(reader.*)"
    L0 = Lin.sym(L0s)
    eng = new_engine(chk, fx, unroll=True)
    rets = eng.analyse(a.msg_try_read_validate["key"], name="Message::try_read_validate[%s]" % config)
    record_engine(chk, eng, "Message::try_read_validate [%s]: %d paths" % (config, len(rets)))
    n = {"ctrl": 0, "dataL": 0, "data": 0}
    for st, v in rets:
        vi, payload = result_parts(v)
        if vi != 0:
            continue
        kind = tables.variant_name(eng, payload)
        rd = st.cells.get(("obj", "reader"))
        if not isinstance(rd, VReader):
            chk.oblig(False, "consume | reader-lost", "reader state lost on an accepting path", {})
            continue
        consumed = L0 - rd.L
        evs = st.events()
        top = [e for e in evs if e[0] in ("read", "skip", "bytes", "sub") and e[1] == "reader.*"]
        reads = [e for e in top if e[0] == "read"]
        # upper bounds on the remaining input: a test of the form `remaining <= c` on an accepting path would let
        # appended octets change the outcome
        from lin import entails as _ent
        ups = [c for c in st.cons if c[1] == "le" and c[0].t.get(L0s, 0) > 0 and not _ent([], c, eng.ranges)]
        eqs = [c for c in st.cons if c[1] == "eq" and L0s in c[0].t]
        msg = payload.variants[payload.vidx.c][0]
        lv = dict(layout.leaves(eng, st, msg))
        if kind == "Control":
            n["ctrl"] += 1
            length = reads[1][3].lin if len(reads) > 1 else None
            ok = length is not None and eng.ent(st, c_eq(consumed, length))
            chk.oblig(ok, "consume | ControlMessage", "a control message is accepted after consuming %r octets, its Length field says %r" % (consumed, length),
                      {"rule": "consumed == declared Length", "path": st.notes()[-6:]},
                      {"obligation": "control: octets consumed == Length field", "consumed": repr(consumed)} if n["ctrl"] == 1 else None)
            subs = [i for i, e in enumerate(top) if e[0] == "sub"]
            ok2 = len(subs) == 1 and subs[0] == len(top) - 1
            chk.oblig(ok2, "isolation | ControlMessage", "the parent reader is used after (or never carved by) the AVP sub-reader: %s" % [e[0] for e in top],
                      {"rule": "AVP region carved out once, parent not touched afterwards"},
                      {"obligation": "control: AVPs decoded from a sub-reader of Length-12; parent untouched afterwards"} if n["ctrl"] == 1 else None)
            chk.oblig(not ups and not eqs, "trailing | ControlMessage", "acceptance of a control message depends on an upper bound of the input length: %s" % [repr(c[0]) for c in (ups + eqs)][:2],
                      {"rule": "octets after the declared end cannot change the result"},
                      {"obligation": "control: remaining-length tests are all lower bounds"} if n["ctrl"] == 1 else None)
        elif kind == "Data":
            F = next(iter(reads[0][3].lin.t))
            hasL = st.bitfacts.get((F, 9))
            d = lv.get(".data")
            if hasL:
                n["dataL"] += 1
                length = reads[1][3].lin
                ok = eng.ent(st, c_eq(consumed, length))
                chk.oblig(ok, "consume | DataMessage(L)", "a data message with a Length field is accepted after consuming %r octets, Length says %r" % (consumed, length),
                          {"rule": "consumed == declared Length", "path": st.notes()[-8:]},
                          {"obligation": "data with L: octets consumed == Length field", "consumed": repr(consumed)} if n["dataL"] == 1 else None)
                dep = isinstance(d, VSlice) and (L0s in d.len.t or L0s in d.start.t)
                chk.oblig(not ups and not eqs and not dep, "trailing | DataMessage(L)",
                          "octets after the declared end of a data message can influence the result (%s)" % ("payload extent depends on the input length" if dep else [repr(c[0]) for c in ups + eqs][:2]),
                          {"rule": "octets after the declared end cannot change the result"},
                          {"obligation": "data with L: payload extent and acceptance independent of trailing octets"} if n["dataL"] == 1 else None)
            else:
                n["data"] += 1
                ok = eng.ent(st, c_eq(rd.L, Lin.const(0)))
                chk.oblig(ok, "consume | DataMessage(no L)", "a data message without Length leaves %r octets unread" % (rd.L,),
                          {"rule": "without a Length field the payload is the rest of the input"},
                          {"obligation": "data without L: everything consumed"} if n["data"] == 1 else None)
    chk.require_anchor(n["ctrl"] >= 1 and n["dataL"] >= 4 and n["data"] >= 4, "accepting paths for control / data(L) / data found %s" % n)
    # ---------------- per-AVP isolation in the greedy loop
    eng = new_engine(chk, fx)
    info = {"back": 0, "probs": []}

    def on_loop(frame, head, H, res, havoc, lid):
        if eng.mute or not in_ctx(frame, a.avp_greedy) or not record_loop(res, H.ntrace):
            return
        n0 = H.ntrace
        rdh = H.cells.get(("obj", "reader"))
        for b in res["back"]:
            info["back"] += 1
            evs = b.events()[n0:]
            mine = [e for e in evs if e[0] in ("read", "skip", "bytes", "sub") and e[1] == "reader.*"]
            rdb = b.cells.get(("obj", "reader"))
            pushes_ = [e for e in evs if e[0] == "push"]
            if mine and all(e[0] == "read" for e in mine) and len(pushes_) == 1:
                vi_, p_ = result_parts(pushes_[0][2])
                if vi_ == 1 and tables.variant_name(eng, p_) == "InvalidAVPLength":
                    continue          # a record with an unusable length: nothing to carve (whether the loop then stops is C15's clause)
            hreads = [e for e in mine[:-1]]
            hview = AvpHeaderView(eng, b, hreads) if all(e[0] == "read" for e in hreads) else None
            if hview is None or not hview.ok or sum(e[2] for e in hreads) != 6 or mine[-1][0] not in ("skip", "bytes", "sub"):
                info["probs"].append("an iteration touches the region reader as %s (expected the 6 header octets read + one payload carve)" % [e[0] for e in mine])
                continue
            total = hview.total
            carve = mine[-1][2]
            if not eng.ent(b, c_eq(carve.lin + 6, total)):
                info["probs"].append("payload carve of %r octets differs from the AVP length field minus 6" % (carve.lin,))
            if not (isinstance(rdb, VReader) and isinstance(rdh, VReader) and eng.ent(b, c_eq(rdh.L - rdb.L, total))):
                info["probs"].append("an iteration does not consume exactly the AVP's own length")
            if mine[-1][0] == "bytes" and not mine[-1][4]:
                info["probs"].append("hidden payload request can fail")
    eng.hooks["loop"] = on_loop
    eng.analyse(a.avp_greedy["key"], name="AVP::try_read_greedy[%s]" % config)
    chk.oblig(not info["probs"] and info["back"] >= 40, "avp-isolation | AVP::try_read_greedy",
              "AVP records are not decoded each from exactly its own octets: %s" % sorted(set(info["probs"]))[:3],
              {"rule": "each loop iteration consumes exactly the record's length; the payload decoder sees only the carved sub-range",
               "problems": sorted(set(info["probs"]))},
              {"obligation": "every iteration: 4 header reads + one carve of (length-6); consumed == length", "iteration_paths": info["back"]})


def run(chk):
    run_config(chk, "default")
    if chk.tier == "thorough":
        for cfg in ("debug", "release"):
            run_config(chk, cfg)
    return chk.finish(
        "proof",
        explanation="Consumption ghost C = L_entry - L on every accepting path equals the declared length (all option sets, all "
                    "data configurations); event traces show the parent reader untouched after the AVP carve and each loop "
                    "iteration consuming exactly one record; accepting paths bound the remaining input only from below, so appended "
                    "octets cannot change an accept. Sequences of mixed accepted/rejected messages are not decided (a rejected "
                    "message leaves the reader at an unspecified position).",
        assumptions=["Reader contract (sub-reader covers exactly the requested octets; C18 for SliceReader)"])
