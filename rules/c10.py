"""C10 re-encoding a decoded message is stable (structural necessary conditions only; the equation
encode(decode(encode(decode(b)))) = encode(decode(b)) is a value-level statement and is NOT decided).

1. decode image inside the encodable domain: on every accepting path of every payload decoder the
   variable-length fields are non-empty; an AVP's payload is at most 1017 octets (10-bit length);
   (first AVP = Message Type is C15, non-empty data payload is C05, control total <= 65535 by type)
2. the encoders never echo received framing: no octet emitted for a control message derives from
   the decoded `length` field; AVP flag/length octets derive from the recomputed length only
3. retention without lossy normalisation: every decoded field is a verbatim wire integer, a verbatim
   wire region, or an enumerated value -- nothing the encoder reads is transformed or dropped by
   decoding (so a second decode sees the same fields)"""
from rules.common import *
from lenflow import State
import layout
import tables
from rules.c04 import writer_paths


def verbatim(eng, st, leaf, wire_syms):
    """is this decoded leaf a verbatim copy of wire data (or a constant / enum / absent option)?"""
    if leaf is None:
        return True
    if isinstance(leaf, VInt):
        if leaf.lin.is_const():
            return True
        syms = list(leaf.lin.t.items())
        if len(syms) == 1 and syms[0][1] == 1 and leaf.lin.c == 0 and syms[0][0] in wire_syms:
            return True
        # a bit range carved out of a wider read (two u16 fields fetched as one u32) is verbatim wire data too
        sp = layout.bitspan(eng, st, leaf.lin)
        return sp is not None and sp[0] in wire_syms and sp[1] % 8 == 0 and sp[2] % 8 == 0
    if isinstance(leaf, VBool):
        return leaf.f[0] in ("const", "bit")
    if isinstance(leaf, VVec):
        return bool(leaf.segs) and len(leaf.segs) == 1 and leaf.segs[0][1][0] == "wire"
    if isinstance(leaf, VArr):
        return leaf.src is not None and leaf.src[0] == "slice" and leaf.src[1][0] == "wire"
    if isinstance(leaf, VSlice):
        return isinstance(leaf.base, tuple) and leaf.base[0] == "rd"
    if isinstance(leaf, VAdt):
        return True          # enum with symbolic/constant variant (pinned by a code table, C16)
    return False


def run_config(chk, config):
    fx = chk.facts(config)
    a = Anchors(chk, fx)
    if not (a.need("msg_write", "avp_write", "header_try_read", "avp_greedy") and a.need_floors()):
        return
    # ---- 1 + 3 per payload decoder
    for vname, rf in sorted(a.payload_readers.items()):
        eng = new_engine(chk, fx)
        rets = eng.analyse(rf["key"], name="%s::try_read[%s]" % (vname, config))
        record_engine(chk, eng, "%s::try_read [%s]: %d paths" % (vname, config, len(rets)))
        probs = []
        n_ok = 0
        for s, v in rets:
            vi, payload = result_parts(v)
            if vi != 0:
                continue
            n_ok += 1
            wire = set(next(iter(e[3].lin.t)) for e in s.events() if e[0] == "read")
            for p, leaf in layout.leaves(eng, s, payload):
                if isinstance(leaf, VVec):
                    if not eng.ent(s, c_le(Lin.const(1), leaf.len)):
                        probs.append("field %s may decode to an empty value, which the encoder's domain excludes" % p)
                if not verbatim(eng, s, leaf, wire):
                    probs.append("field %s is not a verbatim copy of wire data (%r): decoding normalises it" % (p, leaf))
        chk.oblig(not probs and n_ok >= 1, "image | %s::try_read" % vname,
                  "%s decodes outside the encodable domain or lossily: %s" % (vname, sorted(set(probs))[:2]),
                  {"rule": "decoded fields are verbatim wire data; variable-length fields non-empty", "problems": sorted(set(probs))},
                  {"obligation": "%s: accepted values are verbatim and inside the encoder's domain" % vname, "ok_paths": n_ok})
    # AVP payload length bound from the 10-bit length field
    eng = new_engine(chk, fx)
    r2 = eng.analyse(a.header_try_read["key"], name="Header::try_read[%s]" % config)
    okb = False
    for s, v in r2:
        for p, leaf in layout.leaves(eng, s, v):
            if p.endswith(".payload_length") and isinstance(leaf, VInt):
                lo, hi = eng.bounds(s, leaf.lin)
                okb = hi is not None and hi <= 1017 and lo is not None and lo >= 0
    chk.oblig(okb, "image | AVP payload <= 1017", "a decoded AVP payload length is not bounded by 1017 octets", {},
              {"obligation": "every decoded AVP fits the 10-bit length on re-encoding"})
    # hidden AVPs: value verbatim (checked in C03 'hidden'); here: the hidden branch is the only consumer of H
    # ---- 2 no echo of received framing
    engw, wpaths = writer_paths(chk, fx, a, "Control")
    echo = []
    for s, wt in wpaths:
        for t in wt:
            txt = repr(t.get("prov")) + repr(t.get("desc")) + repr(getattr(t.get("off"), "lin", ""))
            if "Control.0.length" in txt:
                echo.append(layout.fmt_tokens([t]))
    chk.oblig(not echo and len(wpaths) >= 1, "no-echo | ControlMessage::write",
              "the control encoder emits octets derived from the decoded length field: %s" % echo[:2],
              {"rule": "Length is recomputed, never echoed", "tokens": echo[:4]},
              {"obligation": "no token of ControlMessage::write derives from self.length"})
    eng = new_engine(chk, fx)
    rets = eng.analyse(a.avp_write["key"], name="AVP::write[%s]" % config)
    W0 = "W(writer.*)"
    bad = []
    for s, _ in rets:
        for t in layout.wtokens(eng, s):
            if t["k"] == "patch":
                d = t["desc"]
                vals = list(d[1]) if d[0] == "elems" else []
                for x in vals:
                    if isinstance(x, VInt):
                        for sym in x.lin.t:
                            # the patched octets may depend on the recomputed length (quotients/remainders of the writer
                            # length ghost and field lengths) and on nothing decoded from a header
                            if not (sym.startswith("q[") or sym.startswith("r[") or sym.startswith("len(") or sym == W0 or sym.startswith("top$") or sym.startswith("b2i")):
                                bad.append(sym)
    chk.oblig(not bad and len(rets) >= 40, "no-echo | AVP::write", "AVP flag/length octets depend on %s" % sorted(set(bad))[:3], {},
              {"obligation": "AVP header octets derive from the recomputed length and the variant only"})


def run(chk):
    run_config(chk, "default")
    # the fixed point also needs the round-trip conditions themselves (decode(encode(m)) = m up to Length):
    # the sibling cross-checks of C03 (control/AVPs) and C04 (data messages) are re-established here
    import rules.c03 as c03
    import rules.c04 as c04
    import rules.c07 as c07
    c03.run_config(chk, "default")
    c04.run_config(chk, "default")
    c07.run_config(chk, "default")      # the re-encoded lengths must be exact for the second decode to see the same records
    if chk.tier == "thorough":
        for cfg in ("debug", "release"):
            run_config(chk, cfg)
    return chk.finish(
        "other",
        explanation="Three structural necessary conditions of the one-round fixed point: decode image inside the encodable "
                    "domain, no echo of received framing, verbatim retention (no lossy/unstable normalisation while decoding). "
                    "With C03/C04 layout agreement these imply the property IF values round-trip; the fixed-point equation itself "
                    "over all accepted byte strings is not decided by a static argument in reach.",
        assumptions=["C03/C04 (layout and field agreement), C15 (first AVP), C05 (data payload non-empty)"])
