"""C18 SliceReader / VecWriter satisfy the Reader / Writer contract tables, method by method, from an
arbitrary state satisfying the representation invariant (inductive: hence for every call sequence)."""
from rules.common import *
from lenflow import State

DECODE_KINDS = ("arith", "bounds", "unwrap", "unsafe-pre", "panic-reach", "rank")


def impl_methods(fx, adt_suffix, trait_suffix):
    out = {}
    for f in fx.raw["fns"]:
        if f.get("container") == "trait_impl" and f.get("trait", "").endswith(trait_suffix) and "self_ty" in f:
            t = fx.types[f["self_ty"]]
            if t["k"] == "adt" and t["key"].endswith(adt_suffix):
                out[f["item"]] = f
    return out


def reader_state(eng, f):
    st = State()
    srty = f["self_ty"]
    s = eng.len_sym("s")
    n = eng.len_sym("n")
    sl = VSlice(("origin", "O"), s, n, elem=eng.u8_ty())
    st.cells[("obj", "self")] = VAdt(srty, Lin.const(0), {0: (sl,)})
    return st, VRef(("obj", "self"), (), True), s, n


def data_of(eng, st):
    v = st.cells[("obj", "self")]
    return eng.variant_fields(st, v, 0)[0]


def region_is(eng, st, sl, base, start, ln):
    return isinstance(sl, VSlice) and sl.base == base and eng.ent(st, c_eq(sl.start, start)) and eng.ent(st, c_eq(sl.len, ln))


def check_reader(chk, fx, config, only=None, nonzero=()):
    ms = impl_methods(fx, "::SliceReader", "::Reader")
    chk.require_anchor(len(ms) >= 9, "SliceReader implements the 9 Reader methods (found %d) [%s]" % (len(ms), config))
    if only is not None:
        ms = {k: v for k, v in ms.items() if k in only}
    O = ("origin", "O")
    widths = {"read_u8_unchecked": 1, "read_u16_be_unchecked": 2, "read_u32_be_unchecked": 4, "read_u64_be_unchecked": 8}
    for item, f in sorted(ms.items()):
        eng = new_engine(chk, fx, inline_rw_impls=True)
        st, selfref, s, n = reader_state(eng, f)
        args = [selfref]
        k = None
        if item in widths:
            k = Lin.const(widths[item])
            st.cons.append(c_le(k, n))                       # requires L >= width
        elif item in ("skip_bytes", "subreader"):
            kv = eng.named_int(eng.usize_ty(), "k")
            k = kv.lin
            st.cons.append(c_le(k, n))                       # requires k <= L
            args.append(kv)
            if item in nonzero:
                st.cons.append(c_le(Lin.const(1), k))        # the borrowing proof never passes 0
        elif item == "bytes":
            kv = eng.named_int(eng.usize_ty(), "k")          # total: no requires
            k = kv.lin
            args.append(kv)
            if item in nonzero:
                st.cons.append(c_le(Lin.const(1), k))
        rets = eng.analyse(f["key"], args=args, state=st, name="SliceReader::%s[%s]" % (item, config))
        record_engine(chk, eng, "SliceReader::%s [%s]: %d return paths" % (item, config, len(rets)))
        chk.add_engine_obligs(eng, DECODE_KINDS, "C18 SliceReader::%s under its contract precondition" % item)
        ok = bool(rets)
        why = "no return path"
        for rs, rv in rets:
            d = data_of(eng, rs)
            if item == "len":
                good = isinstance(rv, VInt) and eng.ent(rs, c_eq(rv.lin, n)) and region_is(eng, rs, d, O, s, n)
            elif item == "is_empty":
                good = isinstance(rv, VBool) and region_is(eng, rs, d, O, s, n)
                if good:
                    a = rs.fork()
                    b = rs.fork()
                    good = (eng.add(a, c_eq(n, Lin.const(0))) and eng.bool_value(a, rv.f) is True and
                            eng.add(b, c_le(Lin.const(1), n)) and eng.bool_value(b, rv.f) is False)
            elif item in widths:
                w = widths[item]
                good = region_is(eng, rs, d, O, s + w, n - w) and isinstance(rv, VInt)
                if good:
                    if w == 1:
                        exp = ["byte(%r@%r)" % (O, s), "be(%r)" % (("sym", "O", s, Lin.const(1)),)]
                    else:
                        exp = ["be(%r)" % (("sym", "O", s, Lin.const(w)),)]
                    syms = list(rv.lin.t.items())
                    good = len(syms) == 1 and syms[0][1] == 1 and rv.lin.c == 0 and syms[0][0] in exp and \
                        eng.int_info(rv.ty) == (8 * w, False)
                    if not good and rv.lin.c == 0 and len(syms) == w and eng.int_info(rv.ty) == (8 * w, False):
                        # assembled octet by octet: sum of 256^(w-1-k) * byte(O @ s+k)
                        want = {"byte(%r@%r)" % (O, s + k): 256 ** (w - 1 - k) for k in range(w)}
                        good = dict(syms) == want
                    why = "returned value %r is not the big-endian value of the next %d octet(s) %s" % (rv.lin, w, exp)
            elif item == "skip_bytes":
                good = region_is(eng, rs, d, O, s + k, n - k)
            elif item == "subreader":
                good = region_is(eng, rs, d, O, s + k, n - k) and isinstance(rv, VAdt)
                if good:
                    sub = eng.variant_fields(rs, rv, 0)[0]
                    good = region_is(eng, rs, sub, O, s, k)
            elif item == "bytes":
                vi, payload = result_parts(rv)
                if vi == 1:
                    good = eng.ent(rs, c_le(k, n)) and region_is(eng, rs, payload, O, s, k) and region_is(eng, rs, d, O, s + k, n - k)
                elif vi == 0:
                    good = eng.ent(rs, c_lt(n, k)) and isinstance(d, VSlice) and d.base == O and eng.ent(rs, c_le(d.len, n))
                else:
                    good = False
            else:
                good = True
            if not good:
                ok = False
                if why == "no return path":
                    why = "post-condition of %s not established on path %s" % (item, rs.notes()[-4:])
        chk.oblig(ok, "ensures | SliceReader::%s" % item, "SliceReader::%s does not establish its contract post-condition: %s" % (item, why),
                  {"rule": "Reader contract ensures", "method": item},
                  {"obligation": "SliceReader::%s: returned value / new cursor position as in the contract" % item, "return_paths": len(rets)})


def writer_state(eng, f):
    st = State()
    W = eng.len_sym("W0")
    cell = ("obj", "self.data")
    st.cells[cell] = VVec(W, ((W, ("sym", "prefix")),), None, "self.data", eng.u8_ty())
    st.cells[("obj", "self")] = VAdt(f["self_ty"], Lin.const(0), {0: (VRef(cell, (), True),)})
    return st, VRef(("obj", "self"), (), True), W, cell


def check_writer(chk, fx, config, only=None, nonzero=()):
    ms = impl_methods(fx, "::VecWriter", "::Writer")
    chk.require_anchor(len(ms) >= 8, "VecWriter implements the 8 Writer methods (found %d) [%s]" % (len(ms), config))
    if only is not None:
        ms = {k: v for k, v in ms.items() if k in only}
    wid = {"write_u8": 1, "write_u16_be": 2, "write_u32_be": 4, "write_u64_be": 8}
    for item, f in sorted(ms.items()):
        eng = new_engine(chk, fx, inline_rw_impls=True)
        st, selfref, W, cell = writer_state(eng, f)
        args = [selfref]
        b = off = val = None
        if item in wid:
            val = eng.symval(st, f["body"]["locals"][2], "value")
            args.append(val)
        elif item in ("write_bytes", "write_bytes_at"):
            b = VSlice(("origin", "bytes"), Lin.const(0), eng.len_sym("len(bytes)"), elem=eng.u8_ty())
            args.append(b)
            if item in nonzero:
                st.cons.append(c_le(Lin.const(1), b.len))
            if item == "write_bytes_at":
                off = eng.named_int(eng.usize_ty(), "offset")
                args.append(off)
        rets = eng.analyse(f["key"], args=args, state=st, name="VecWriter::%s[%s]" % (item, config))
        record_engine(chk, eng, "VecWriter::%s [%s]: %d return paths" % (item, config, len(rets)))
        if item == "write_bytes_at":
            # refusing (panicking) is the contract for out-of-range overwrites; the unsafe copy must be justified
            chk.add_engine_obligs(eng, ("unsafe-pre", "unwrap"), "C18 VecWriter::write_bytes_at unsafe precondition")
        else:
            chk.add_engine_obligs(eng, DECODE_KINDS, "C18 VecWriter::%s is total" % item)
        ok = bool(rets)
        why = "no return path"
        for rs, rv in rets:
            v = rs.cells[cell]
            if item == "len":
                good = isinstance(rv, VInt) and eng.ent(rs, c_eq(rv.lin, W)) and v.segs == st.cells[cell].segs
            elif item == "is_empty":
                a_, b_ = rs.fork(), rs.fork()
                good = (isinstance(rv, VBool) and eng.add(a_, c_eq(W, Lin.const(0))) and eng.bool_value(a_, rv.f) is True and
                        eng.add(b_, c_le(Lin.const(1), W)) and eng.bool_value(b_, rv.f) is False)
            elif item in wid:
                w = wid[item]
                good = eng.ent(rs, c_eq(v.len, W + w)) and v.segs is not None and len(v.segs) == 2 and v.segs[0][1] == ("sym", "prefix")
                if good:
                    d = v.segs[1][1]
                    good = d[0] == "be" and isinstance(d[1], VInt) and d[1].lin == val.lin and d[2] == w
                    why = "appended octets %r are not the %d-octet big-endian form of the argument" % (d, w)
            elif item == "write_bytes":
                good = eng.ent(rs, c_eq(v.len, W + b.len)) and v.segs is not None and len(v.segs) == 2 and \
                    v.segs[0][1] == ("sym", "prefix") and v.segs[1][1] == ("sym", "bytes", Lin.const(0), b.len)
            elif item == "write_bytes_at":
                good = eng.ent(rs, c_eq(v.len, W)) and eng.ent(rs, c_le(off.lin + b.len, W))
                if good:
                    cps = [e for e in rs.events() if e[0] == "copy"]
                    good = len(cps) == 1 and cps[0][1] == cell and eng.ent(rs, c_eq(cps[0][2], off.lin)) and \
                        eng.ent(rs, c_eq(cps[0][3].lin, b.len)) and cps[0][4] == ("sym", "bytes", Lin.const(0), b.len)
                    why = "the in-place copy is not exactly bytes -> [offset, offset+len)"
                else:
                    why = "returns with a changed length or for a range outside the written data (must refuse)"
            else:
                good = True
            if not good:
                ok = False
                if why == "no return path":
                    why = "post-condition not established on path %s" % (rs.notes()[-4:],)
        chk.oblig(ok, "ensures | VecWriter::%s" % item, "VecWriter::%s does not establish its contract post-condition: %s" % (item, why),
                  {"rule": "Writer contract ensures", "method": item},
                  {"obligation": "VecWriter::%s: buffer = old buffer with exactly the contract's effect" % item, "return_paths": len(rets)})
    # an overwrite that lies inside the written data is carried out, never refused: under the in-range
    # precondition every obligation of write_bytes_at (bounds, asserts, arithmetic) must be discharged
    f = ms.get("write_bytes_at")
    if f is not None:
        eng = new_engine(chk, fx, inline_rw_impls=True)
        st, selfref, W, cell = writer_state(eng, f)
        b = VSlice(("origin", "bytes"), Lin.const(0), eng.len_sym("len(bytes)"), elem=eng.u8_ty())
        off = eng.named_int(eng.usize_ty(), "offset")
        st.cons.append(c_le(off.lin + b.len, W))
        rets = eng.analyse(f["key"], args=[selfref, b, off], state=st, name="VecWriter::write_bytes_at(in range)[%s]" % config)
        record_engine(chk, eng, "VecWriter::write_bytes_at with offset+len <= W [%s]: %d return paths" % (config, len(rets)))
        chk.add_engine_obligs(eng, DECODE_KINDS, "C18 an in-range overwrite is not refused")
        chk.oblig(len(rets) >= 1, "in-range | VecWriter::write_bytes_at", "write_bytes_at has no returning path for an in-range overwrite", {},
                  {"obligation": "write_bytes_at returns for every offset+len <= W"})
    # refusal exists: write_bytes_at has a diverging path for out-of-range (checked above through 'returns only in range')


def run_config(chk, config):
    fx = chk.facts(config)
    check_reader(chk, fx, config)
    check_writer(chk, fx, config)


def discharge(chk, config, used):
    """contract discharge for another property's proof: that proof applied the Reader / Writer contract tables at its
    call sites; here the only implementations (SliceReader, VecWriter) are shown to meet the contract for exactly the
    methods it used, so a defect in one of those methods is reported under every property whose proof relied on it."""
    fx = chk.facts(config)
    r = set(item for tr, item in used if tr == "Reader")
    w = set(item for tr, item in used if tr == "Writer")
    nz = set(item for (tr, item), zero in used.items() if not zero)
    if r:
        check_reader(chk, fx, config, only=r, nonzero=nz)
    if w:
        check_writer(chk, fx, config, only=w, nonzero=nz)


def run(chk):
    run_config(chk, "default")
    if chk.tier == "thorough":
        for cfg in ("debug", "release"):
            run_config(chk, cfg)
    return chk.finish(
        "proof",
        explanation="Each of the 9 SliceReader and 8 VecWriter methods is analysed from an arbitrary state (cursor = region "
                    "[s, s+n) of an arbitrary origin; buffer = arbitrary prefix of W0 octets) under the contract's requires; "
                    "all bounds/unsafe/arith/panic obligations and the ensures clause (returned region, new cursor, appended "
                    "octets, in-place overwrite, refusal) are proven. bytes(n) is total, so n is unconstrained.",
        assumptions=["from_be_bytes/to_be_bytes are big-endian (std)", "extend_from_slice/push append (std)"])
