"""C01 decoding is total: no panic, no arithmetic overflow, terminates, Err is non-empty.

Entry points are analysed generically over `impl Reader<T>` (contract of lib/stubs.py) with
all validation options symbolic; every obligation of kinds arith / bounds / unwrap /
unsafe-pre / reader-pre / panic-reach / rank in the decode closure must be discharged."""
from rules.common import *

KINDS = ("arith", "bounds", "unwrap", "unsafe-pre", "reader-pre", "panic-reach", "rank")


def decode_entries(a):
    ents = [("Message::try_read", a.msg_try_read), ("Message::try_read_validate", a.msg_try_read_validate),
            ("AVP::try_read_greedy", a.avp_greedy)]
    for vname, f in sorted(a.payload_readers.items()):
        ents.append(("%s::try_read" % vname, f))
    return ents


def run_config(chk, config):
    fx = chk.facts(config)
    a = Anchors(chk, fx)
    if not (a.need("msg_try_read", "msg_try_read_validate", "avp_greedy", "decode_avp", "header_try_read",
                   "ctrl_try_read", "data_try_read", "flags_read") and a.need_floors()):
        return
    cg = callgraph(fx)
    roots = [f["key"] for _, f in decode_entries(a)]
    reach = cg.reachable(roots)
    cyc = cg.cycles(reach)
    chk.oblig(not cyc, "recursion | decode closure", "decode call graph has a cycle (termination undecided): %s" % (cyc[:1],),
              {"rule": "no recursion in the decode closure", "cycles": cyc[:3]},
              {"obligation": "decode call graph is acyclic", "functions_in_closure": len(reach)})
    chk.extra.setdefault("closure_size", {})[config] = len(reach)
    nloops = 0
    for name, f in decode_entries(a):
        eng = new_engine(chk, fx)
        rets = eng.analyse(f["key"], name="%s[%s]" % (name, config))
        record_engine(chk, eng, "%s [%s]: %d return paths" % (name, config, len(rets)))
        chk.add_engine_obligs(eng, KINDS, "C01 totality")
        nloops += len(eng.loops_report)
        # Err(list) is non-empty
        if name.startswith("Message::"):
            bad = None
            nerr = 0
            for st, v in rets:
                vi, payload = result_parts(v)
                if vi == 1:
                    nerr += 1
                    ln = vec_len_of(eng, st, payload)
                    tgt = st.cells.get(payload.cell) if isinstance(payload, VRef) else payload
                    if isinstance(tgt, VUnknown) and "havoc" in (tgt.name or ""):
                        chk.notes.append("undecided clause: Err list of %s was passed to an unmodelled callee; non-emptiness not decided" % name)
                        continue
                    if ln is not None and any(x.startswith("len(ret$") or "havoc" in x for x in ln.t):
                        # list produced by an unmodelled callee: shape unknown, clause undecided (not an alarm)
                        chk.notes.append("undecided clause: Err list of %s comes out of an unmodelled callee; non-emptiness not decided" % name)
                        continue
                    if ln is None or not eng.ent(st, c_le(Lin.const(1), ln)):
                        bad = (st, ln)
                elif vi is None:
                    bad = (st, None)
            chk.oblig(bad is None, "err-nonempty | %s" % name,
                      "an Err return of %s is not proven to carry a non-empty error list" % name,
                      {"rule": "Err(list) non-empty", "path": bad[0].notes()[-10:] if bad else None,
                       "len": repr(bad[1]) if bad else None},
                      {"obligation": "every Err(list) returned by %s has len >= 1" % name, "err_paths": nerr, "config": config})
    # the same decode over the crate's own SliceReader with its method bodies analysed in place
    # ("decoding a byte string"): panics inside the reader implementation count too
    from lenflow import State
    for name, f in (("Message::try_read_validate", a.msg_try_read_validate), ("AVP::try_read_greedy", a.avp_greedy)):
        eng = new_engine(chk, fx, inline_rw_impls=True)
        st = State()
        rd = slice_reader_arg(eng, st)
        if not chk.require_anchor(rd is not None, "SliceReader type"):
            break
        args = [rd, None] if f["body"]["arg_count"] == 2 else [rd]
        rets = eng.analyse(f["key"], args=args, state=st, name="%s over SliceReader[%s]" % (name, config))
        record_engine(chk, eng, "%s over SliceReader [%s]: %d return paths" % (name, config, len(rets)))
        chk.add_engine_obligs(eng, KINDS, "C01 totality (SliceReader)")
    chk.require_anchor(nloops >= 1, "greedy AVP loop found in the decode closure [%s]" % config)


def run(chk):
    # "in builds with and without overflow/debug assertions": both assertion settings on every change
    run_config(chk, "default")
    run_config(chk, "debug")
    if chk.tier == "thorough":
        run_config(chk, "release")
    return chk.finish(
        "proof",
        explanation="All decode entry points (Message::try_read, try_read_validate, AVP::try_read_greedy and every payload "
                    "try_read) analysed for all inputs and all 8 option sets at once; obligations = every arithmetic op, "
                    "index, unwrap, unsafe precondition, reader precondition, reachable panic and loop ranking in the closure.",
        assumptions=["a conforming Reader: len() <= isize::MAX and the contract table of lib/stubs.py",
                     "wall-clock bound not decided beyond termination + linear consumption",
                     "allocation failure out of scope"])
