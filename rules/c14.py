"""C14 validation options only restrict; each checks exactly its bits; default = version only.

(i)   default entry point: try_read calls try_read_validate with {reserved: No, version: Yes, unused: No}
(ii)  bit sets: the reserved check consults exactly bits {0,1,2,3,10,11,13}; the version value is
      exactly bits 4..7 and is compared with 2; priority = bit 15, offset = bit 14 (spec/headers.json)
(iii) gating: on every decoder path, a reserved bit / the version nibble / (control) bits 14,15 is
      consulted only when the matching option is Yes (path facts, all 8 option sets symbolic)
(iv)  only restrict: options are used only as branch discriminants, never flow into a result; the
      region of code reachable only through an option's Yes edge reads nothing from the reader,
      writes nothing that is used after the join, and can only produce Err"""
import json
import os
from rules.common import *
from lenflow import State
from framework import VERIF
import layout
import tables

OPTS = ("reserved", "version", "unused")


def opt_state(eng, st, name):
    """'Yes' / 'No' / None for option `name` on this path (Yes has variant index 0)"""
    s = Lin.sym("validation_options.%s#v" % name)
    if eng.ent(st, c_eq(s, Lin.const(0))):
        return "Yes"
    if eng.ent(st, c_eq(s, Lin.const(1))):
        return "No"
    return None


def succ_of(b):
    t = b["term"]
    k = t["t"]
    if k == "goto":
        return [t["target"]]
    if k == "switch":
        return [x[1] for x in t["targets"]] + [t["otherwise"]]
    if k == "call":
        return [t["target"]] if t["target"] is not None else []
    if k in ("assert", "drop"):
        return [t["target"]]
    return []


def reach(blocks, start, stop=()):
    seen = set()
    work = [start]
    while work:
        x = work.pop()
        if x in seen or x in stop or blocks[x]["cleanup"]:
            continue
        seen.add(x)
        work.extend(succ_of(blocks[x]))
    return seen


def locals_in(x, out, mode):
    """collect locals read/written in a MIR json subtree"""
    if isinstance(x, dict):
        if "l" in x and "p" in x:
            out.add(x["l"])
            for e in x["p"]:
                if isinstance(e, dict) and "idx" in e:
                    out.add(e["idx"])
            return
        for v in x.values():
            locals_in(v, out, mode)
    elif isinstance(x, list):
        for v in x:
            locals_in(v, out, mode)


def run_config(chk, config):
    fx = chk.facts(config)
    a = Anchors(chk, fx)
    if not a.need("msg_try_read", "msg_try_read_validate", "ctrl_try_read"):
        return
    hs = json.load(open(os.path.join(VERIF, "spec", "headers.json")))["flags"]
    # ---- (i) default options
    eng = new_engine(chk, fx)
    seen = []

    def on_call(frame, st, bb, func, args):
        if (func.get("resolved") or func)["key"] == a.msg_try_read_validate["key"] and frame.key == a.msg_try_read["key"]:
            o = args[1]
            vals = []
            if isinstance(o, VAdt):
                for f in o.variants.get(0, ()):
                    vals.append(tables.variant_name(eng, f))
            seen.append(vals)
    eng.hooks["call"] = on_call
    eng.mute += 1
    eng.analyse(a.msg_try_read["key"], name="Message::try_read")
    eng.mute -= 1
    oadt = None
    for k, adt in fx.adts.items():
        if k.endswith("::ValidationOptions"):
            oadt = adt
    names = [f["name"] for f in oadt["variants"][0]["fields"]] if oadt else []
    want = {"reserved": "No", "version": "Yes", "unused": "No"}
    got = [dict(zip(names, v)) for v in seen]
    chk.oblig(bool(got) and all(g == want for g in got), "default | Message::try_read",
              "Message::try_read does not decode with exactly {reserved: No, version: Yes, unused: No}: %s" % got,
              {"rule": "default entry point = version checking alone", "got": got, "want": want},
              {"obligation": "try_read(b) = try_read_validate(b, {version})", "options": got})
    # ---- (ii) bit sets of the flag accessors
    flags_ty = None
    for i, t in enumerate(fx.types):
        if t["k"] == "adt" and t["key"].endswith("message::flags::Flags"):
            flags_ty = i
    if chk.require_anchor(flags_ty is not None, "message Flags type"):
        def run_acc(item):
            f = find_fn(fx, "message::flags::Flags", item)
            if f is None:
                return None, None, None
            e2 = new_engine(chk, fx)
            st = State()
            D = e2.named_int(e2.u16_ty(), "D", bits_sym=True)
            st.cells[("obj", "self")] = VAdt(flags_ty, Lin.const(0), {0: (D,)})
            return e2, e2.analyse(f["key"], args=[VRef(("obj", "self"))], state=st, name="Flags::%s" % item), D
        e2, r2, D = run_acc("reserved_bits_ok")
        if chk.require_anchor(r2 is not None, "Flags::reserved_bits_ok"):
            # a result returned as an undecided formula is decided by a case split on it
            split = []
            for s, v in r2:
                if isinstance(v, VBool) and e2.bool_value(s, v.f) is None:
                    for s3 in e2.assume(s.fork(), v.f, True):
                        split.append((s3, TRUE))
                    for s3 in e2.assume(s.fork(), v.f, False):
                        split.append((s3, FALSE))
                else:
                    split.append((s, v))
            r2 = split
            bits = set()
            ok_true = False
            for s, v in r2:
                bits.update(k for (sym, k) in s.bitfacts if sym == "D")
                val = e2.bool_value(s, v.f) if isinstance(v, VBool) else None
                if val is True:
                    ok_true = all(s.bitfacts.get(("D", k)) is False for k in hs["reserved"]) and \
                        set(k for (sym, k) in s.bitfacts if sym == "D") == set(hs["reserved"])
                elif val is False:
                    if not any(s.bitfacts.get(("D", k)) is True for k in hs["reserved"]):
                        ok_true = False
                        break
            chk.oblig(bits == set(hs["reserved"]) and ok_true, "bits | reserved_bits_ok",
                      "reserved-bit check consults bits %s, the reserved header bits are %s" % (sorted(bits), hs["reserved"]),
                      {"rule": "reserved check true iff all of exactly the reserved bits are clear", "bits": sorted(bits), "spec": hs["reserved"]},
                      {"obligation": "reserved_bits_ok reads exactly bits %s" % hs["reserved"], "paths": len(r2)})
        e2, r2, D = run_acc("get_version")
        if chk.require_anchor(r2 is not None, "Flags::get_version"):
            good = len(r2) == 1 and isinstance(r2[0][1], VInt)
            if good:
                b = e2.bits_of(r2[0][1])
                wantb = [("b", "D", hs["version_shift"] + i) for i in range(hs["version_bits"])]
                good = list(b[:hs["version_bits"]]) == wantb and all(x == 0 for x in b[hs["version_bits"]:])
            chk.oblig(good, "bits | get_version", "version value is not exactly bits %d..%d of the flag word" % (hs["version_shift"], hs["version_shift"] + hs["version_bits"] - 1),
                      {"rule": "version nibble = bits 4-7"}, {"obligation": "get_version = bits 4..7"})
        for item, bit in (("is_prioritized", hs["P"]), ("has_offset", hs["O"]), ("has_length", hs["L"]), ("has_ns_nr", hs["S"])):
            e2, r2, D = run_acc(item)
            if chk.require_anchor(r2 is not None, "Flags::%s" % item):
                good = len(r2) == 1 and isinstance(r2[0][1], VBool) and r2[0][1].f == ("bit", "D", bit)
                chk.oblig(good, "bits | %s" % item, "Flags::%s does not read exactly bit %d" % (item, bit), {"got": repr(r2[0][1]) if r2 else None},
                          {"obligation": "Flags::%s = bit %d" % (item, bit)})
    # ---- (iii) gating on all paths, options symbolic
    eng = new_engine(chk, fx)
    switches = []

    def on_switch(frame, st, bb, d, val, tb):
        if isinstance(d, VInt) and len(d.lin.t) == 1 and d.lin.c == 0:
            s = next(iter(d.lin.t))
            if s.startswith("validation_options.") and s.endswith("#v"):
                switches.append((frame.key, bb, s[len("validation_options."):-2], val, tb))
        elif isinstance(d, VBool):
            # `options.x == ValidateX::Yes` (derived PartialEq) tested as a boolean: the edge on which the
            # option is decided Yes / No plays the role of the discriminant switch's edge
            syms = set()

            def walk(f):
                if f[0] == "atom":
                    syms.update(f[1][0].t)
                elif f[0] in ("not", "and", "or"):
                    for g in f[1:]:
                        walk(g)
                else:
                    syms.add(None)
            walk(d.f)
            if len(syms) == 1:
                s = next(iter(syms))
                if s and s.startswith("validation_options.") and s.endswith("#v"):
                    o = opt_state(eng, st, s[len("validation_options."):-2])
                    if o is not None:
                        switches.append((frame.key, bb, s[len("validation_options."):-2], 0 if o == "Yes" else None, tb))
    eng.hooks["switch"] = on_switch
    rets = eng.analyse(a.msg_try_read_validate["key"], name="Message::try_read_validate[%s]" % config)
    record_engine(chk, eng, "Message::try_read_validate [%s]: %d paths, all option sets symbolic" % (config, len(rets)))
    problems = []
    off_paths = {}
    import re as _re

    def _norm(r_):
        # names of fresh objects and frame instances differ from path to path without meaning anything
        return _re.sub(r"\((\d+), (\d+)\)", r"(_, \2)", _re.sub(r"\$\d+", "$", r_))

    def err_names(st_, vi_, payload_):
        if vi_ == 1 and isinstance(payload_, VRef):
            vv_ = st_.cells.get(payload_.cell)
            if isinstance(vv_, VVec) and vv_.elems:
                return tuple(tables.variant_name(eng, e_) for e_ in vv_.elems)
        return ()
    n_rej = {"InvalidReservedBits": 0, "InvalidVersion": 0, "ForbiddenControlMessagePriority": 0, "ForbiddenControlMessageOffset": 0}
    for st, v in rets:
        reads = [e for e in st.events() if e[0] == "read"]
        if not reads:
            continue
        F = next(iter(reads[0][3].lin.t))
        facts = {k: val for (sym, k), val in st.bitfacts.items() if sym == F}
        o = {n: opt_state(eng, st, n) for n in OPTS}
        vi, payload = result_parts(v)
        is_control = facts.get(hs["T"]) is True
        # a path that tested a reserved bit (or a control message's P / O bit) with the option off: the bit influences the
        # result unless the paths that differ only in such bits cover every value of them with the same outcome (the
        # test was evaluated, e.g. as an operand of a tuple match, but nothing was made of it) - settled below, per class
        for optn, bits_ in (("reserved", tuple(hs["reserved"])), ("unused", (hs["P"], hs["O"]) if is_control else ())):
            touched = [k for k in facts if k in bits_]
            if touched and o[optn] != "Yes":
                defs_ = st.ghost.get("defs", set())
                # (the binary digits of these very bits, pinned together with the bit facts, are not "other" constraints)
                dig_ = set("r[%s/2]" % (F if k == 0 else "q[%s/%d]" % (F, 1 << k)) for k in bits_)
                sig = (optn, o[optn], vi, tables.variant_name(eng, payload) if vi == 0 else None,
                       tuple(sorted((p_, _norm(repr(l_))) for p_, l_ in layout.leaves(eng, st, v))) + (err_names(st, vi, payload),),
                       tuple(sorted((k, val) for k, val in facts.items() if k not in bits_)),
                       tuple(sorted(_norm(repr(c_)) for c_ in st.cons if c_[0].key() not in defs_ and not (set(c_[0].t) <= dig_))),
                       tuple(sorted((n_, o[n_]) for n_ in OPTS)))
                off_paths.setdefault(sig, []).append({k: facts[k] for k in touched})
        # version nibble consulted?  Every symbol of this path that denotes exactly the version bits of the flag word
        # (however the code carved them out: (w >> 4) & 0xf, (w as u8) >> 4, (w & 0xf0) >> 4, ...) is one view of it
        q_, _r = eng.divmod_const(st, Lin.sym(F), 1 << hs["version_shift"])
        _q, r_ = eng.divmod_const(st, q_, 1 << hs["version_bits"])
        rver = next(iter(r_.t))
        layout.canonical_value(eng, st, r_)            # tells the solver that all such views are equal
        vspan = (F, hs["version_shift"], hs["version_bits"])
        views = set(nm for nm in layout._divdefs(st) if layout.bitspan(eng, st, Lin.sym(nm)) == vspan)
        defs = st.ghost.get("defs", set())
        used = [c for c in st.cons if (views & set(c[0].t)) and c[0].key() not in defs and not (len(c[0].t) == 2 and set(c[0].t) <= views)]
        if used and o["version"] != "Yes":
            problems.append("the version nibble influences the result although version checking is %s" % o["version"])
        # an accepting path on which an option was never consulted stands for both of its values: for Yes it must
        # still have established what that check requires
        if o["version"] in ("Yes", None) and vi == 0 and not eng.ent(st, c_eq(Lin.sym(rver), Lin.const(hs["version"]))):
            problems.append("accepted under version checking without version == %d%s" % (hs["version"], "" if o["version"] else " (the option is not consulted on this path)"))
        if o["reserved"] in ("Yes", None) and vi == 0 and not all(facts.get(k) is False for k in hs["reserved"]):
            problems.append("accepted under reserved checking without all reserved bits clear%s" % ("" if o["reserved"] else " (the option is not consulted on this path)"))
        if o["unused"] in ("Yes", None) and vi == 0 and is_control and not (facts.get(hs["P"]) is False and facts.get(hs["O"]) is False):
            problems.append("control message accepted under unused-field checking without P and O clear%s" % ("" if o["unused"] else " (the option is not consulted on this path)"))
        if vi == 1 and isinstance(payload, VRef):
            vv = st.cells.get(payload.cell)
            if isinstance(vv, VVec) and vv.elems:
                nm = tables.variant_name(eng, vv.elems[0])
                if nm in n_rej:
                    n_rej[nm] += 1
        # results carry no option
        for p, leaf in layout.leaves(eng, st, v):
            lin = getattr(leaf, "lin", None)
            if lin is not None and any(s.startswith("validation_options.") for s in lin.t):
                problems.append("a decoded field (%s) depends on a validation option" % p)
    import itertools
    for sig, parts in off_paths.items():
        optn = sig[0]
        bits_ = sorted(set(k for pa in parts for k in pa))
        # do the partial assignments of this class cover all values of the bits they mention?
        covered = all(any(all(pa[k] == asg[i] for i, k in enumerate(bits_) if k in pa) for pa in parts)
                      for asg in itertools.product((False, True), repeat=len(bits_))) if len(bits_) <= 10 else False
        if not covered:
            for k in bits_:
                if optn == "reserved":
                    problems.append("reserved bit %d influences the result although reserved checking is %s" % (k, sig[1]))
                else:
                    problems.append("control message bit %d influences the result although unused-field checking is %s" % (k, sig[1]))
    chk.oblig(not problems, "gating | Message::try_read_validate",
              "validation options do not only gate their own check: %s" % sorted(set(problems))[:3],
              {"rule": "each option consults exactly its own bits, and only when switched on", "problems": sorted(set(problems))},
              {"obligation": "on all %d decoder paths a reserved bit / version nibble / control P,O bit is consulted only under its option" % len(rets)})
    chk.oblig(all(n >= 1 for n in n_rej.values()), "rejects | Message::try_read_validate",
              "an option's rejection is unreachable: %s" % n_rej, {"rejections": n_rej},
              {"obligation": "each check has a rejecting path", "paths": n_rej})
    # ---- (iv) only-restrict: structure of the Yes-only region of each option switch
    sites = {}
    for fkey, bb, opt, val, tb in switches:
        sites.setdefault((fkey, bb, opt), {})[val] = tb
    chk.require_anchor(len(sites) >= 3, "three option switches found (found %d)" % len(sites))
    for (fkey, bb, opt), tg in sorted(sites.items()):
        fn = fx.fns[fkey]
        blocks = fn["body"]["blocks"]
        yes = tg.get(0)
        no = tg.get(None, tg.get(1))
        key = "only-restrict | %s | %s" % (fn["name"], opt)
        if yes is None or no is None:
            chk.oblig(False, key, "option switch on %s has no separate Yes/No edges" % opt, {})
            continue
        rn = reach(blocks, no)
        ry = reach(blocks, yes, stop=())
        region = ry - rn
        probs = []
        written = set()
        for bi in sorted(region):
            b = blocks[bi]
            for s in b["stmts"]:
                if s["s"] == "assign":
                    written.add(s["place"]["l"])
                    rv = s["rv"]
                    if s["place"]["l"] == 0 and not s["place"]["p"]:
                        if not (rv["k"] == "agg" and rv["kind"].get("agg") == "adt" and rv["kind"].get("vname") == "Err"):
                            probs.append("bb%d assigns a non-Err result inside the region reachable only under %s=Yes" % (bi, opt))
            t = b["term"]
            if t["t"] == "call":
                written.add(t["dest"]["l"])
                fnm = t["func"]
                if fnm.get("trait", "").endswith("::Reader") or fnm.get("trait", "").endswith("::Writer"):
                    probs.append("bb%d calls %s inside the %s=Yes-only region" % (bi, fnm["name"], opt))
                for ag in t["args"]:
                    # &mut of the reader must not be handed out in the gated region
                    pass
        read_after = set()
        for bi in rn:
            b = blocks[bi]
            tmp = set()
            for s in b["stmts"]:
                if s["s"] == "assign":
                    locals_in(s["rv"], tmp, "r")
                    if s["place"]["p"]:
                        tmp.add(s["place"]["l"])
            t = b["term"]
            if t["t"] == "call":
                locals_in(t["args"], tmp, "r")
            elif t["t"] == "switch":
                locals_in(t["discr"], tmp, "r")
            elif t["t"] == "assert":
                locals_in(t["cond"], tmp, "r")
            elif t["t"] == "return":
                tmp.add(0)
            read_after |= tmp
        # _0 written in the region is fine when that path returns without rejoining; temporaries must not leak
        leak = sorted((written & read_after) - {0})
        # a local that is (re)assigned in the No-side before being read is not a leak: conservative check only on args
        leak = [l for l in leak if l <= fn["body"]["arg_count"]]
        if leak:
            probs.append("the %s=Yes-only region overwrites argument local(s) %s that the common continuation reads" % (opt, leak))
        chk.oblig(not probs, key, "the code gated by %s does more than restrict: %s" % (opt, probs[:2]),
                  {"rule": "Yes side either returns Err or rejoins the No side with the same store", "region_blocks": sorted(region), "problems": probs},
                  {"obligation": "%s: %s=Yes-only region (%d blocks) only rejects or rejoins" % (fn["name"].split("::")[-2] + "::" + fn["name"].split("::")[-1], opt, len(region))})


def run(chk):
    run_config(chk, "default")
    if chk.tier == "thorough":
        for cfg in ("debug", "release"):
            run_config(chk, cfg)
    return chk.finish(
        "proof",
        explanation="All 8 option sets symbolic at once: bit-level path facts show each option consults exactly its own header "
                    "bits and only when switched on; the Yes-only code regions can only reject or rejoin; no decoded field depends "
                    "on an option; the default entry point passes {version}. Hence decode(b,opts')=Ok(m) => decode(b,opts)=Ok(m) "
                    "for opts <= opts'.",
        assumptions=["spec/headers.json bit positions (crate numbering)"])
