"""C12 hidden values are the RFC 2661 section 4.3 construction (structural: the CONSTRUCTION coded in
hide/reveal is compared with spec/hiding.json; value equality with a reference computation and the
md5 crate itself are not decided).

* plaintext = original length(2, = total length of the original AVP) | value | length padding |
  minimal alignment prefix; block size 16; |hidden value| = 16*ceil((2+|payload|+|lp|)/16)
* key 1 = MD5(attribute type(2) | secret | random vector); key i = MD5(secret | c_{i-1}) where
  c_{i-1} is CIPHERTEXT (segment state from the loop direction), in hide and in reveal
* the result carries the clear attribute type of the original AVP; the wire form sets H (C07)
* purity: hide/reveal reach no effectful callee and no state"""
import json
import os
from rules.common import *
from lenflow import State
from framework import VERIF
import layout
import tables
from hiding import Extract, norm_key
from rules.c11 import extract_pair, key_facts, xor_facts
from rules.c13 import attr_type_consts
from effects import classify_external


def run_config(chk, config):
    fx = chk.facts(config)
    a = Anchors(chk, fx)
    if not (a.need("avp_hide", "avp_reveal") and a.need_floors()):
        return
    spec = json.load(open(os.path.join(VERIF, "spec", "hiding.json")))
    B = spec["block"]
    engh, H, engr, R, selfv = extract_pair(chk, fx, a, config)
    want_first = tuple({"attribute_type:2": ("type16",), "secret": ("arg", "secret"), "random_vector": ("arg", "random_vector.*.value")}[x]
                       for x in spec["first_key"])
    want_chain = tuple({"secret": ("arg", "secret"), "previous_ciphertext_block": ("block",)}[x] for x in spec["chain_key"])
    from hiding import unrecognised_keys
    unrec = {"hide": unrecognised_keys(engh, H), "reveal": unrecognised_keys(engr, R)}
    for n_, u in unrec.items():
        if u:
            chk.notes.append("undecided clauses (C12): the MD5 inputs of %s are not understood (%s); its key / XOR / chaining / "
                             "coverage clauses are not decided" % (n_, "; ".join(u)[:160]))
            chk.extra.setdefault("construction_not_understood", {})[n_] = u
    for name, eng, X, back in (("hide", engh, H, False), ("reveal", engr, R, True)):
        if unrec[name]:
            continue
        first, chain = key_facts(eng, X)
        chk.oblig(first == {want_first}, "first-key | %s" % name,
                  "%s: first key input is %s, RFC 2661 4.3 says %s" % (name, sorted(first), spec["first_key"]),
                  {"rule": "key 1 = MD5(attribute type | secret | random vector)", "got": sorted(first), "spec": spec["first_key"]},
                  {"obligation": "%s: key 1 input order = type(2) | secret | RV" % name})
        shapes = set(c["shape"] for c in chain)
        rels = set((c["rel"], repr(c["len"])) for c in chain if c["rel"] != "unlinked")
        if any(c["rel"] == "unlinked" for c in chain):
            chk.notes.append("undecided clause (C12): %s stores its chain digests and uses them elsewhere; key block position not decided" % name)
        chk.oblig(shapes == {want_chain} and rels <= {(-B, str(B))} and set(repr(c["len"]) for c in chain) == {str(B)}, "chain-key | %s" % name,
                  "%s: chain key input is %s over block offsets %s, RFC 2661 4.3 says %s with the previous %d-octet block" % (name, sorted(shapes), sorted(rels, key=str), spec["chain_key"], B),
                  {"rule": "key i = MD5(secret | block i-1)", "got": sorted(shapes), "offsets": sorted(rels, key=str)},
                  {"obligation": "%s: key i input = secret | buffer[16(i-1),16i)" % name, "loops": len(chain)})
        xs = xor_facts(eng, X, chain)
        # keys computed before any block is XORed chain on the original buffer (fine for reveal, wrong for hide)
        early = [c for c in chain if xs and all(c["lid"] in x["done"] for x in xs) and not any(set(x["lid"] for x in xs) & set(c["done"]))]
        walked = [c for c in chain if c not in early]
        dirs = set(c["back"] for c in walked)
        if None in dirs:
            chk.notes.append("undecided clause (C12): %s walk direction of the chain not understood" % name)
        firsts = [x for x in xs if x["kind"] == "first"]
        first_lids = set(x["lid"] for x in firsts)
        chain_lids = set(c["lid"] for c in walked)
        if name == "hide":
            cipher = not early and dirs <= {False, None} and bool(firsts) and all(first_lids & set(c["done"]) for c in walked)
            why = "ascending walk with block 0 encrypted first: block i-1 already holds ciphertext"
        else:
            cipher = dirs <= {True, None} and bool(firsts) and not any(first_lids & set(c["done"]) for c in chain) and \
                (not walked or any(chain_lids & set(x["done"]) for x in firsts))
            why = "descending walk (or keys taken before any XOR) with block 0 decrypted last: block i-1 still holds ciphertext"
        if not cipher and any(not x["known_digest"] for x in xs) and not firsts:
            chk.notes.append("undecided clause (C12): %s XORs with keys carried over from another round; which block holds ciphertext when a key is taken is not decided" % name)
            chk.extra.setdefault("construction_not_understood", {}).setdefault(name, []).append("keys carried from round to round")
            cipher = True
        merged = [x for x in firsts if any(x["lid"] not in c["done"] and c["lid"] not in x["done"] for c in walked)]
        if merged and not cipher:
            # the block-0 step runs inside the chain loop (one loop with a special round): which blocks still hold
            # ciphertext when a key is taken depends on when that round happens - not decided by this rule
            chk.notes.append("undecided clause (C12): %s handles block 0 inside the chain loop; ciphertext-chaining not decided for this shape" % name)
            chk.extra.setdefault("construction_not_understood", {}).setdefault(name, []).append("block 0 handled inside the chain loop")
            cipher = True
        chk.oblig(cipher, "ciphertext-chaining | %s" % name,
                  "%s chains on a block that does not hold ciphertext at that point (walk direction %s)" % (name, ["down" if d else "up" for d in dirs]),
                  {"rule": "c_{i-1} is the previous CIPHERTEXT block", "walk_downwards": sorted(dirs)},
                  {"obligation": "%s: %s" % (name, why)})
        if any(not x["known_digest"] for x in xs):
            chk.notes.append("undecided clause (C12): %s XORs with stored digests; XOR alignment of those loops not decided" % name)
        badx = [x for x in xs if x["known_digest"] and not (x["aligned"] and x["j"] == (0, B - 1) and x["kind"] in ("first", "chain"))]
        chk.oblig(not badx and bool(xs), "xor | %s" % name, "%s: block XOR is not octet-by-octet with the block's own key" % name, {},
                  {"obligation": "%s: block i XOR MD5(key i), 16 octets" % name})
    # every block is keyed and XORed (coverage), and reveal accepts every original length that fits
    from hiding import coverage_semantic
    for name, eng_, X_ in (("hide", engh, H), ("reveal", engr, R)):
        if unrec[name]:
            continue
        f_, ch_ = key_facts(eng_, X_)
        cp, und = coverage_semantic(eng_, X_, ch_)
        for u in und:
            chk.notes.append("undecided clause (C12): %s %s" % (name, u))
        for x in xor_facts(eng_, X_, ch_):
            if x["j"] != (0, B - 1):
                cp.append("XOR loop covers key octets %s, not 0..%d" % (x["j"], B - 1))
        chk.oblig(not cp, "coverage | %s" % name, "%s does not process every block/octet: %s" % (name, cp[:2]),
                  {"rule": "each later block is XORed with MD5(secret, previous ciphertext block): all blocks 1..n-1", "problems": cp},
                  {"obligation": "%s: every block is processed" % name})
    hidden_idx = [i for i, (n, k, t) in enumerate(a.variants) if n == "Hidden"][0]
    over = []
    n_len_err = 0
    for s, v in R.rets:
        vi, p = result_parts(v)
        if vi == 1 and tables.variant_name(engr, p) == "InvalidOriginalAVPLength":
            n_len_err += 1
            reads = [e for e in s.events() if e[0] == "read"]
            fs = engr.variant_fields(s, selfv, hidden_idx)
            val = engr.variant_fields(s, fs[0], 0)[1]
            ln = vec_len_of(engr, s, val)
            if reads and ln is not None:
                tot = reads[0][3].lin
                if layout.conj_feasible(engr, s, [c_le(Lin.const(6), tot), c_le(tot, Lin.const(1023)), c_le(tot - 6, ln - 2)]):
                    over.append(s.notes()[-3:])
    chk.oblig(not over and n_len_err >= 1, "ref-reveal | original length",
              "reveal rejects an original length that fits the decrypted value (the reference construction accepts it): %s" % over[:1],
              {"rule": "reveal(h) = ref_reveal(h): reject only when 6 <= total <= 1023 and total-6 <= |value|-2 fails"},
              {"obligation": "reveal rejects an original length only when it does not fit"})
    # plaintext: original length = total length of the original AVP; minimal alignment; multiple of 16
    atc = attr_type_consts(fx)
    from hiding import plaintext_facts
    dests = set(x["dest"] for x in xor_facts(engh, H, key_facts(engh, H)[1]))
    pf = plaintext_facts(engh, H, dests)
    n_ok = len(pf)
    probs = [p for f in pf for p in f["problems"]]
    if unrec["hide"]:
        chk.notes.append("undecided clause (C12): hide's plaintext layout (its block loops are not understood)")
    else:
      chk.oblig(not probs and n_ok >= 39, "plaintext | hide", "hide plaintext differs from RFC 2661 4.3: %s" % sorted(set(probs))[:2],
              {"rule": "original length(2) | value | length padding | minimal alignment; |hidden| = 16*ceil((2+|value|+|lp|)/16)", "problems": sorted(set(probs))},
              {"obligation": "hide: plaintext layout, original length = total AVP length, minimal alignment", "paths": n_ok})
    # result carries the clear attribute type of the original
    bad_t = []
    n_t = 0
    for s, v in H.rets:
        if not (isinstance(v, VAdt) and v.vidx.is_const() and tables.variant_name(engh, v) == "Hidden") or v.base == "self":
            continue
        lo, hi = engh.bounds(s, Lin.sym("self#v"))
        if lo is None or lo != hi:
            continue
        vname, akey, _ = a.variants[lo]
        want = atc.get(akey)
        hv = v.variants[v.vidx.c][0]
        at = hv.variants[0][0]
        n_t += 1
        if not (isinstance(at, VInt) and want is not None and engh.ent(s, c_eq(at.lin, Lin.const(want)))):
            bad_t.append((vname, repr(getattr(at, "lin", at)), want))
    chk.oblig(not bad_t and n_t >= 39, "clear-type | hide", "hide does not keep the original attribute type in clear: %s" % bad_t[:2], {},
              {"obligation": "hide(a).attribute_type = type(a) for all 39 kinds", "paths": n_t})
    # purity of hide/reveal
    cg = callgraph(fx)
    reach = cg.reachable([a.avp_hide["key"], a.avp_reveal["key"]])
    eff = []
    for k in sorted(reach):
        for nm, ln, exp in cg.ext_calls.get(k, []):
            if [c for c in classify_external(nm) if c in ("io", "time", "thread", "random")]:
                eff.append((fx.fns[k]["name"], nm))
    statics = [s["name"] for s in fx.raw["statics"] if s["mut"] or not s["freeze"] or s["thread_local"]]
    chk.oblig(not eff and not statics, "purity | hide/reveal", "hide/reveal depend on something other than their inputs: %s %s" % (eff[:2], statics[:2]),
              {"rule": "output depends on nothing but the inputs"}, {"obligation": "hide/reveal reach no effect, clock, RNG or mutable state", "functions": len(reach)})


def run(chk):
    run_config(chk, "default")
    if chk.tier == "thorough":
        for cfg in ("debug", "release"):
            run_config(chk, cfg)
    return chk.finish(
        "other",
        explanation="The construction coded in hide/reveal (plaintext layout, original-length value, minimal alignment, key input "
                    "orders, chaining on ciphertext, block-wise XOR, clear type, purity) equals the table written from RFC 2661 4.3. "
                    "NOT decided: octet-for-octet equality with a reference computation, and that md5::compute is MD5.",
        assumptions=["spec/hiding.json is the reading of RFC 2661 4.3", "md5 0.7 computes MD5 (trusted dependency, version pinned by Cargo.lock)"])
