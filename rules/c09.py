"""C09 encoding only appends; position independent -- for any conforming Writer.

Entry state: the writer already holds W0 octets (symbolic).  (a) every positional overwrite
[off, off+n) issued while encoding a value satisfies W0 <= off and off+n <= W (inside the value
being encoded); (b) position taint: values derived from Writer::len() are absolute; a difference of
two absolute values is clean; an absolute value may only be used as the offset of an overwrite --
no emitted token and no branch condition may depend on an absolute position.  Hence the appended
octets are a function of the value alone and sequential encodes concatenate."""
from rules.common import *
from lenflow import State
from stubs import ABS


def tainted(x, depth=0, syms=()):
    """does a token value/descriptor contain a position-tainted integer, or a length / offset expression over the
    absolute writer position (or over a loop-carried value that started out position dependent)?"""
    if depth > 6:
        return False
    if isinstance(x, (VInt, VBool)):
        return bool(x.taint) or (isinstance(x, VInt) and tainted(x.lin, depth + 1, syms))
    if isinstance(x, Lin):
        # absolute positions: the writer's position on entry, its loop-carried position, values derived from them.
        # An expression is position independent iff shifting every absolute position by the same amount leaves it
        # unchanged, i.e. the coefficients of the absolute symbols sum to zero (end - start is fine, 1023 - len is not)
        tot = sum(k for s, k in x.t.items() if s == "W(writer.*)" or s in syms or (s.startswith("h[") and s.endswith(".W]")))
        return tot != 0
    if isinstance(x, (tuple, list)):
        return any(tainted(y, depth + 1, syms) for y in x)
    if isinstance(x, VArr) and x.elems:
        return any(tainted(y, depth + 1, syms) for y in x.elems)
    return False


def analyse_entry(chk, fx, name, f, config, own_writer=False):
    eng = new_engine(chk, fx)
    stats = {"patches": 0, "tokens": 0, "branches": 0, "len_sources": 0}
    W0 = Lin.sym("W(writer.*)")

    def on_wat(st, site, wid, n, d, off, W):
        stats["patches"] += 1
        frame, bb, t = site
        lower = W0 if not (isinstance(wid, tuple) and wid[0] == "vec") else Lin.const(0)
        ok = eng.ent(st, c_le(lower, off.lin))
        label = eng.callee_label(t["func"])
        eng.oblig("patch-lower", frame, bb, label, ok, st,
                  None if ok else "overwrite offset %r not proven >= %r (start of the value being encoded)" % (off.lin, lower), t.get("ln"))
        bad = tainted(d, 0, getattr(eng, "tainted_syms", ()))
        eng.oblig("taint-token", frame, bb, label, not bad, st,
                  None if not bad else "overwritten octets depend on an absolute writer position", t.get("ln"))

    def on_w(st, site, wid, item, val):
        stats["tokens"] += 1
        frame, bb, t = site
        bad = tainted(val, 0, getattr(eng, "tainted_syms", ()))
        eng.oblig("taint-token", frame, bb, eng.callee_label(t["func"]), not bad, st,
                  None if not bad else "emitted octets depend on an absolute writer position (%r)" % (val,), t.get("ln"))

    def on_switch(frame, st, bb, d, val, tb):
        if eng.mute:
            return
        stats["branches"] += 1
        bad = bool(getattr(d, "taint", None))
        if bad:
            eng.oblig("taint-branch", frame, bb, "switch", False, st,
                      "branch condition depends on an absolute writer position", frame.body["blocks"][bb]["term"].get("ln"))

    def on_call(frame, st, bb, func, args):
        if func.get("trait", "").endswith("Writer") and func.get("item") in ("len", "is_empty") and not eng.mute:
            stats["len_sources"] += 1

    eng.hooks.update({"wat": on_wat, "w": on_w, "switch": on_switch, "call": on_call})
    rets = eng.analyse(f["key"], name="%s[%s]" % (name, config))
    record_engine(chk, eng, "%s [%s]: %d return paths, %s" % (name, config, len(rets), stats))
    n = chk.add_engine_obligs(eng, ("writer-pre", "patch-lower", "taint-token", "taint-branch"), "C09 append-only / position independent")
    return eng, rets, stats


def run_config(chk, config):
    fx = chk.facts(config)
    a = Anchors(chk, fx)
    if not a.need("msg_write", "avp_write", "ctrl_write", "data_write", "avp_hide"):
        return
    tot = {"patches": 0, "tokens": 0, "len_sources": 0}
    for name, f in (("Message::write", a.msg_write), ("AVP::write", a.avp_write), ("ControlMessage::write", a.ctrl_write),
                    ("DataMessage::write", a.data_write), ("AVP::hide", a.avp_hide)):
        eng, rets, stats = analyse_entry(chk, fx, name, f, config)
        for k in tot:
            tot[k] += stats[k]
        chk.require_anchor(len(rets) >= 1, "%s has a returning path" % name)
    chk.require_anchor(tot["patches"] >= 3, "at least 3 back-patch sites analysed (found %d)" % tot["patches"])
    chk.require_anchor(tot["len_sources"] >= 3, "at least 3 Writer::len() position sources (found %d)" % tot["len_sources"])
    # the Writer trait offers no other way to touch earlier content
    tr = fx.traits.get("common::writer::Writer")
    if chk.require_anchor(tr is not None, "Writer trait"):
        items = sorted(i["name"] for i in tr["items"] if i["kind"] == "AssocFn")
        known = ["is_empty", "len", "write_bytes", "write_bytes_at", "write_u16_be", "write_u32_be", "write_u64_be", "write_u8"]
        chk.oblig(items == known, "trait | Writer methods",
                  "Writer trait methods changed (%s): the append/overwrite contract table no longer covers the trait" % items,
                  {"rule": "contract table covers every Writer method", "methods": items},
                  {"obligation": "Writer has exactly the 8 contracted methods; only write_bytes_at can touch earlier octets"})


def run(chk):
    run_config(chk, "default")
    if chk.tier == "thorough":
        for cfg in ("debug", "release"):
            run_config(chk, cfg)
    return chk.finish(
        "proof",
        explanation="For an arbitrary prefix length W0 and any conforming writer: each overwrite lies in [W0, W) (and, analysed "
                    "with AVP::write as its own entry, inside the AVP being encoded); no emitted token, overwritten octet or "
                    "branch depends on an absolute position. VecWriter's overwrite touches only the requested range (C18).",
        assumptions=["Writer contract table (lib/stubs.py); VecWriter conformance is C18"])
