"""C19 the codec is pure: no output, no state between calls, no ambient inputs.

E4 effect analysis over the resolved call graph from every externally reachable function of the
crate (a superset of decoding and encoding): no callee in an I/O, environment, time, thread/sync,
randomness or reflection class is reachable; the crate has no mutable, interior-mutable or
thread-local static; no pointer-to-integer exposure."""
import re
from rules.common import *
from effects import classify_external

BAD = ("io", "time", "thread", "random", "alloc_addr", "uninit")
# iteration over a std hash collection: the order depends on the per-process / per-thread random seed of RandomState
HASH_ITER = re.compile(r"<std::collections::(HashSet|HashMap)<.*> as std::iter::IntoIterator>::into_iter$|"
                       r"^std::collections::(HashSet|HashMap)::<.*>::(iter|iter_mut|keys|values|values_mut|into_keys|into_values|drain|retain|extract_if)$|"
                       r"^std::collections::hash_(map|set)::")


def run_config(chk, config):
    fx = chk.facts(config)
    a = Anchors(chk, fx)
    if not a.need("msg_try_read", "msg_try_read_validate", "msg_write", "avp_greedy", "avp_write", "avp_hide", "avp_reveal"):
        return
    cg = callgraph(fx)
    roots = sorted(f["key"] for f in fx.raw["fns"] if f.get("reachable"))
    chk.require_anchor(len(roots) >= 100, "externally reachable functions found (%d)" % len(roots))
    reach = cg.reachable(roots)
    # classifier self-test (positive controls: these names must be recognised on every run)
    for nm, cls in (("std::io::_print", "io"), ("std::io::_eprint", "io"), ("std::time::Instant::now", "time"),
                    ("std::thread::spawn", "thread"), ("std::env::var", "io"), ("rand::random", "random"),
                    ("core::sync::atomic::AtomicUsize::fetch_add", "thread"), ("std::fs::File::open", "io")):
        chk.require_anchor(cls in classify_external(nm), "effect classifier recognises %s as %s" % (nm, cls))
    n_ext = 0
    names = {}
    for k in sorted(reach):
        for name, ln, exp in cg.ext_calls.get(k, []):
            n_ext += 1
            names[name] = names.get(name, 0) + 1
    # one obligation per (function, distinct external callee)
    for k in sorted(reach):
        seen = set()
        for name, ln, exp in cg.ext_calls.get(k, []):
            if name in seen:
                continue
            seen.add(name)
            cls = [c for c in classify_external(name) if c in BAD]
            fname = fx.fns[k]["name"]
            path = None
            if cls:
                for r in (a.msg_try_read_validate["key"], a.msg_try_read["key"], a.msg_write["key"], a.avp_greedy["key"],
                          a.avp_hide["key"], a.avp_reveal["key"], a.avp_write["key"]):
                    path = cg.path_to(r, lambda x: x == k)
                    if path:
                        break
            chk.oblig(not cls, "effect | %s | %s" % (fname, name),
                      "%s calls %s (%s) at %s%s" % (fname, name, "/".join(cls), ln,
                                                      "; reached from the public API via " + " -> ".join(fx.fns[p]["name"] for p in path) if path else ""),
                      {"rule": "no I/O, environment, clock, thread/sync or randomness callee reachable from the public API",
                       "function": fname, "callee": name, "classes": cls, "at": ln, "call_path": path},
                      {"obligation": "%s -> %s is effect free" % (fname.split("::")[-1], name)} if len(seen) == 1 and k in roots[:3] else None)
    chk.extra.setdefault("external_callees", {})[config] = {"distinct": len(names), "call_sites": n_ext, "functions": len(reach)}
    chk.require_anchor(len(names) >= 30, "distinct external callees inspected (%d)" % len(names))
    # statics
    for s in fx.raw["statics"]:
        bad = []
        if s["mut"]:
            bad.append("static mut")
        if not s["freeze"]:
            bad.append("interior mutability (type is not Freeze)")
        if s["thread_local"]:
            bad.append("thread_local")
        chk.oblig(not bad, "static | %s" % s["name"], "static %s keeps state between calls: %s (%s)" % (s["name"], ", ".join(bad), s["ln"]),
                  {"rule": "only immutable Freeze statics", "static": s["name"], "problems": bad},
                  {"obligation": "static %s is immutable, Freeze, not thread-local" % s["name"]})
    # thread-local access and pointer exposure in MIR
    for k in sorted(reach):
        f = fx.fns[k]
        hits = []
        for b in f["body"]["blocks"]:
            if b["cleanup"]:
                continue
            for stt in b["stmts"]:
                if stt["s"] == "assign":
                    rv = stt["rv"]
                    if rv["k"] == "tls":
                        hits.append(("thread-local access", stt.get("ln")))
                    if rv["k"] == "cast" and "ExposeProvenance" in rv["kind"] and "With" not in rv["kind"]:
                        hits.append(("pointer address exposed as integer", stt.get("ln")))
            t = b["term"]
            if t["t"] == "call" and "key" in t["func"]:
                fn_ = t["func"]
                nm = (fn_.get("resolved") or fn_)["name"]
                if HASH_ITER.search(nm) or HASH_ITER.search(fn_["name"]):
                    tys = [fx.ty_str(x) for x in (fn_.get("resolved") or fn_).get("args", []) if isinstance(x, int)]
                    tys += [fx.ty_str(x) for x in fn_.get("args", []) if isinstance(x, int)]
                    if not tys or any("RandomState" in x for x in tys) or not any("BuildHasher" in x for x in tys):
                        hits.append(("iteration over a randomly seeded hash collection (order differs per process/thread)", t.get("ln")))
        for what, ln in hits:
            chk.oblig(False, "ambient | %s | %s" % (f["name"], what), "%s: %s at %s" % (f["name"], what, ln), {"at": ln})
    chk.obligations += 1
    chk.discharged += 1 if not [x for x in chk.findings if x["key"].startswith("ambient")] else 0


def run(chk):
    run_config(chk, "default")
    if chk.tier == "thorough":
        for cfg in ("debug", "release"):
            run_config(chk, cfg)
    return chk.finish(
        "proof",
        explanation="A function of its arguments that reaches no effectful callee and no mutable/interior-mutable/thread-local "
                    "static gives the same result on every repetition, interleaving and thread; nothing is shared, so Send/Sync "
                    "are not needed. Obligations: one per (reachable function, distinct external callee) plus one per static.",
        assumptions=["core/alloc/std functions outside the listed effect classes are pure up to allocation",
                     "md5 0.7 and phf 0.11 are pure (no statics with interior mutability reachable: not re-analysed)"])
