#!/bin/sh
# Build the fact-extractor driver (nightly, no crates.io dependencies) and warm the dependency
# cache of /repo's own build.  Offline.
set -e
cd "$(dirname "$0")"
export CARGO_NET_OFFLINE=true
mkdir -p .cache
( cd driver && CARGO_TARGET_DIR=../.cache/driver-target cargo build --release --offline )
python3 lib/runfacts.py default --force
