"""Linear integer expressions and a small exact Fourier-Motzkin entailment
procedure (integer tightening by gcd normalisation).  Sound, incomplete:
`entails` answering False means "not proven", never "refuted"."""
from math import gcd
from functools import reduce


class Lin:
    __slots__ = ("t", "c", "_k")

    def __init__(self, t=None, c=0):
        self.t = {s: v for s, v in (t or {}).items() if v != 0}
        assert isinstance(c, int), c
        self.c = c
        self._k = None

    @staticmethod
    def const(c):
        return Lin({}, c)

    @staticmethod
    def sym(s):
        return Lin({s: 1}, 0)

    def is_const(self):
        return not self.t

    def key(self):
        if self._k is None:
            self._k = (tuple(sorted(self.t.items())), self.c)
        return self._k

    def __hash__(self):
        return hash(self.key())

    def __eq__(self, o):
        return isinstance(o, Lin) and self.key() == o.key()

    def __add__(self, o):
        if isinstance(o, int):
            return Lin(self.t, self.c + o)
        t = dict(self.t)
        for s, v in o.t.items():
            t[s] = t.get(s, 0) + v
        return Lin(t, self.c + o.c)

    def __neg__(self):
        return Lin({s: -v for s, v in self.t.items()}, -self.c)

    def __sub__(self, o):
        if isinstance(o, int):
            return Lin(self.t, self.c - o)
        return self + (-o)

    def scale(self, k):
        return Lin({s: v * k for s, v in self.t.items()}, self.c * k)

    def syms(self):
        return self.t.keys()

    def subst(self, s, e):
        """replace symbol s by Lin e"""
        if s not in self.t:
            return self
        k = self.t[s]
        t = dict(self.t)
        del t[s]
        return Lin(t, self.c) + e.scale(k)

    def __repr__(self):
        parts = []
        for s, v in sorted(self.t.items()):
            if v == 1:
                parts.append("+%s" % s)
            elif v == -1:
                parts.append("-%s" % s)
            else:
                parts.append("%+d*%s" % (v, s))
        if self.c or not parts:
            parts.append("%+d" % self.c)
        r = "".join(parts)
        return r[1:] if r.startswith("+") else r


# A constraint is (Lin, kind) with kind in 'le' (lin <= 0), 'eq' (lin == 0), 'ne' (lin != 0)

def c_le(a, b):
    """a <= b"""
    return (a - b, "le")


def c_lt(a, b):
    return (a - b + 1, "le")


def c_eq(a, b):
    return (a - b, "eq")


def c_ne(a, b):
    return (a - b, "ne")


def negate(c):
    """list of alternative constraints whose disjunction is the negation"""
    e, k = c
    if k == "le":
        return [((-e) + 1, "le")]          # e >= 1
    if k == "eq":
        return [(e, "ne")]
    return [(e, "eq")]


def cstr(c):
    e, k = c
    return "%r %s 0" % (e, {"le": "<=", "eq": "==", "ne": "!="}[k])


def _norm_le(e):
    """normalise e <= 0 over integers: divide by gcd, tighten constant"""
    if not e.t:
        return e
    g = reduce(gcd, (abs(v) for v in e.t.values()))
    if g > 1:
        # sum(a_i x_i) <= -c  ->  sum(a_i/g x_i) <= floor(-c/g)
        c = -((-e.c) // g)
        return Lin({s: v // g for s, v in e.t.items()}, c)
    return e


class Unsat(Exception):
    pass


FM_LIMIT = 4000
_cache = {}
stats = {"queries": 0, "cache_hits": 0, "fm_runs": 0, "gave_up": 0}


def _unsat(les, eqs):
    return _fm(les, eqs, None) is True


def _fm(les, eqs, keep):
    """les: list of Lin (<=0), eqs: list of Lin (==0).  Returns True if provably
    unsatisfiable over Z; otherwise the set of remaining constraints over the
    symbols in `keep` (empty set / False-y when keep is None)."""
    les = list(les)
    eqs = list(eqs)
    keep = keep or ()
    # eliminate equalities with a unit coefficient by substitution
    changed = True
    while changed and eqs:
        changed = False
        for i, e in enumerate(eqs):
            if not e.t:
                if e.c != 0:
                    return True
                eqs.pop(i)
                changed = True
                break
            g = reduce(gcd, (abs(v) for v in e.t.values()))
            if e.c % g != 0:
                return True
            if g > 1:
                e = Lin({s: v // g for s, v in e.t.items()}, e.c // g)
                eqs[i] = e
            unit = None
            for s, v in e.t.items():
                if abs(v) == 1 and s not in keep:
                    unit = (s, v)
                    break
            if unit:
                s, v = unit
                # s = -(rest)/v
                rest = Lin({x: y for x, y in e.t.items() if x != s}, e.c)
                sol = rest.scale(-1) if v == 1 else rest
                eqs.pop(i)
                eqs = [x.subst(s, sol) for x in eqs]
                les = [x.subst(s, sol) for x in les]
                changed = True
                break
    for e in eqs:
        les.append(e)
        les.append(-e)
    cur = set()
    for e in les:
        e = _norm_le(e)
        if not e.t:
            if e.c > 0:
                return True
            continue
        cur.add(e)
    # integer propagation before the (rational) elimination: a variable pinned to one value by its single-variable
    # bounds (after gcd tightening) is substituted, which can pin the next one (len = 16q + r, r = 0, 1 <= len <= 16)
    for _round in range(8):
        lo, hi = {}, {}
        for e in cur:
            if len(e.t) == 1:
                (s_, v_), = e.t.items()
                if s_ in keep:
                    continue
                if v_ == 1:
                    hi[s_] = min(hi.get(s_, -e.c), -e.c)
                elif v_ == -1:
                    lo[s_] = max(lo.get(s_, e.c), e.c)
        fixed = {s_: lo[s_] for s_ in lo if s_ in hi and lo[s_] == hi[s_]}
        if any(s_ in hi and lo[s_] > hi[s_] for s_ in lo):
            return True
        if not fixed:
            break
        nxt = set()
        for e in cur:
            for s_, val in fixed.items():
                if s_ in e.t:
                    e = e.subst(s_, Lin.const(val))
            e = _norm_le(e)
            if not e.t:
                if e.c > 0:
                    return True
                continue
            nxt.add(e)
        cur = nxt
    stats["fm_runs"] += 1
    while True:
        vars_ = {}
        for e in cur:
            for s, v in e.t.items():
                if s in keep:
                    continue
                p = vars_.setdefault(s, [0, 0])
                if v > 0:
                    p[0] += 1
                else:
                    p[1] += 1
        if not vars_:
            return cur if keep else False
        # drop constraints on variables bounded on one side only
        onesided = {s for s, (p, n) in vars_.items() if p == 0 or n == 0}
        if onesided:
            cur = {e for e in cur if not (onesided & e.t.keys())}
            continue
        s = min(vars_, key=lambda x: vars_[x][0] * vars_[x][1] - vars_[x][0] - vars_[x][1])
        pos = [e for e in cur if e.t.get(s, 0) > 0]
        neg = [e for e in cur if e.t.get(s, 0) < 0]
        rest = {e for e in cur if s not in e.t}
        if len(pos) * len(neg) + len(rest) > FM_LIMIT:
            stats["gave_up"] += 1
            return False
        for p in pos:
            a = p.t[s]
            for n in neg:
                b = -n.t[s]
                e = _norm_le(p.scale(b) + n.scale(a))
                if not e.t:
                    if e.c > 0:
                        return True
                    continue
                rest.add(e)
        cur = rest


def relevant(cons, seed_syms):
    """subset of cons connected (by shared symbols) to seed_syms"""
    seen = set(seed_syms)
    remaining = list(cons)
    picked = []
    changed = True
    while changed:
        changed = False
        rest = []
        for c in remaining:
            sy = c[0].t.keys()
            if any(s in seen for s in sy):
                picked.append(c)
                for s in sy:
                    if s not in seen:
                        seen.add(s)
                changed = True
            else:
                rest.append(c)
        remaining = rest
    return picked, seen


def unsat(cons, ranges=None, focus=None):
    """cons: iterable of constraints; ranges: dict sym -> (lo, hi) implicit bounds.
    focus: symbols to restrict to (connected component); None = all."""
    cons = list(cons)
    if focus is not None:
        cons, seen = relevant(cons, focus)
    else:
        seen = set()
        for c in cons:
            seen.update(c[0].t.keys())
    les, eqs, nes = [], [], []
    for e, k in cons:
        if k == "le":
            les.append(e)
        elif k == "eq":
            eqs.append(e)
        else:
            nes.append(e)
    if ranges:
        for s in seen:
            r = ranges.get(s)
            if r is not None:
                lo, hi = r
                if lo is not None:
                    les.append(Lin({s: -1}, lo))
                if hi is not None:
                    les.append(Lin({s: 1}, -hi))
    key = (frozenset(les), frozenset(eqs), frozenset(nes))
    stats["queries"] += 1
    if key in _cache:
        stats["cache_hits"] += 1
        return _cache[key]
    r = _unsat(les, eqs)
    if not r:
        # a disequality e != 0 is violated when the rest forces e == 0
        for e in nes:
            k2 = (key[0], key[1], e)
            f = _cache.get(k2)
            if f is None:
                f = _unsat(les + [e + 1], eqs) and _unsat(les + [(-e) + 1], eqs)
                _cache[k2] = f
            if f:
                r = True
                break
    _cache[key] = r
    return r


def entails(cons, q, ranges=None):
    """does the conjunction cons entail constraint q (over the integers)?"""
    e, k = q
    if not e.t:
        return (e.c <= 0) if k == "le" else (e.c == 0) if k == "eq" else (e.c != 0)
    focus = set(e.t.keys())
    if k == "le":
        return unsat(list(cons) + [((-e) + 1, "le")], ranges, focus)
    if k == "eq":
        return (unsat(list(cons) + [((-e) + 1, "le")], ranges, focus)
                and unsat(list(cons) + [(e + 1, "le")], ranges, focus))
    # ne: stated as such, or e <= -1 or e >= 1 entailed
    ne = -e
    for x, kk in cons:
        if kk == "ne" and (x == e or x == ne):
            return True
    return (unsat(list(cons) + [(-e, "le")], ranges, focus)
            or unsat(list(cons) + [(e, "le")], ranges, focus))


_bcache = {}


def bounds(cons, e, ranges=None):
    """(lo, hi) constant bounds of Lin e implied by cons (None = unbounded/unknown).
    Returns 'unsat' if cons is unsatisfiable."""
    if not e.t:
        return (e.c, e.c)
    cons, seen = relevant(list(cons), set(e.t.keys()))
    les, eqs = [], []
    for x, k in cons:
        if k == "le":
            les.append(x)
        elif k == "eq":
            eqs.append(x)
    if ranges:
        for s in seen:
            r = ranges.get(s)
            if r is not None:
                lo, hi = r
                if lo is not None:
                    les.append(Lin({s: -1}, lo))
                if hi is not None:
                    les.append(Lin({s: 1}, -hi))
    z = "$z"
    eqs.append(Lin({z: 1}, 0) - e)
    key = (frozenset(les), frozenset(eqs))
    if key in _bcache:
        return _bcache[key]
    r = _fm(les, eqs, (z,))
    if r is True:
        res = "unsat"
    else:
        lo = hi = None
        for c in r or ():
            if set(c.t.keys()) != {z}:
                continue
            a = c.t[z]
            if a > 0:      # a z + c <= 0 -> z <= floor(-c/a)
                h = (-c.c) // a
                hi = h if hi is None else min(hi, h)
            else:          # a z + c <= 0, a<0 -> z >= ceil(c/(-a))
                l = -((-c.c) // (-a))
                lo = l if lo is None else max(lo, l)
        res = (lo, hi)
    _bcache[key] = res
    return res
