"""E1 lenflow: path-sensitive abstract interpreter over the MIR facts.

Abstract values stand for all concrete inputs at once (integers are exact
linear expressions over symbols with a conjunction of linear constraints per
path; entailment by our own Fourier-Motzkin, lib/lin.py).  States are
partitioned at every branch (trace partitioning), crate-local callees are
analysed in context, loops get inductive invariants inferred from candidate
templates (Houdini) over the loop-carried integer cells.  Proof obligations
(arith, bounds, unwrap, unsafe-pre, reader-pre, writer-pre, panic-reach, rank,
narrow) are collected per program point."""
import sys
from collections import Counter, OrderedDict

from lin import Lin, c_le, c_lt, c_eq, c_ne, negate, entails, unsat, bounds, cstr
from absval import *

sys.setrecursionlimit(10000)

READER_TRAIT = "common::reader::Reader"
WRITER_TRAIT = "common::writer::Writer"


class State:
    __slots__ = ("cells", "cons", "bitfacts", "divmemo", "trace", "path", "ntrace", "ghost")

    def __init__(self):
        self.cells = {}
        self.cons = []
        self.bitfacts = {}
        self.divmemo = {}
        self.trace = None       # cons list (event, prev)
        self.ntrace = 0
        self.path = None        # cons list of branch notes
        self.ghost = {}

    def fork(self):
        s = State()
        s.cells = dict(self.cells)
        s.cons = list(self.cons)
        s.bitfacts = dict(self.bitfacts)
        s.divmemo = dict(self.divmemo)
        s.trace = self.trace
        s.ntrace = self.ntrace
        s.path = self.path
        s.ghost = dict(self.ghost)
        return s

    def emit(self, ev):
        self.trace = (ev, self.trace)
        self.ntrace += 1

    def events(self):
        out = []
        t = self.trace
        while t is not None:
            out.append(t[0])
            t = t[1]
        out.reverse()
        return out

    def note(self, n):
        self.path = (n, self.path)

    def notes(self):
        out = []
        t = self.path
        while t is not None:
            out.append(t[0])
            t = t[1]
        out.reverse()
        return out


class Oblig:
    __slots__ = ("kind", "fn", "label", "ordinal", "ln", "total", "failed", "samples", "contexts", "ok_samples", "clean_failed")

    def __init__(self, kind, fn, label, ordinal, ln):
        self.kind = kind
        self.fn = fn
        self.label = label
        self.ordinal = ordinal
        self.ln = ln
        self.total = 0
        self.clean_failed = 0      # failures on paths that no unmodelled callee had touched before (they stand as they are)
        self.failed = 0
        self.samples = []
        self.ok_samples = []
        self.contexts = set()

    def key(self):
        return "%s | %s | %s | #%d" % (self.kind, self.fn, self.label, self.ordinal)


def _fn_short(name):
    return name


from lf_mem import MemMixin
from lf_ops import OpsMixin, Alts
from lf_exec import ExecMixin


class Engine(MemMixin, OpsMixin, ExecMixin):
    def __init__(self, fx, opts=None):
        self.fx = fx
        self.opts = opts or {}
        self.ranges = {}
        self.counter = 0
        self.obligs = OrderedDict()
        self.mute = 0
        self.unmodelled = Counter()
        self.assumed_total = Counter()
        self.aborted = Counter()
        self.notes = []
        self.boolint = {}
        self.stats = Counter()
        self.loopinfo = {}
        self.fn_loops = {}
        self.fn_live = {}
        self.fn_rot = {}            # id(body) -> rotated-loop candidates (see rot_info)
        self._rot_done = {}
        self._trial = None          # block budget of a trial run (terminal back-state test)
        self.site_ord = {}
        self.callgraph_seen = set()
        self.loops_report = []
        self.entry_name = "?"
        self.max_paths = self.opts.get("max_paths", 200000)
        import stubs
        self.stubs = stubs
        self.hooks = {}          # optional observers: 'call', 'return'
        self._entry = {}
        self._loop_gen = {}
        self._loop_entry_cells = {}
        self.loop_stack = []        # loops under inference: [{"lid", "hsyms": {head symbol: entry value}}]
        self.peel_wanted = set()    # loops whose body singles out the first iteration (tests a counter against its entry value)

    # ------------------------------------------------------------ symbols
    def fresh(self, hint="t"):
        self.counter += 1
        return "%s$%d" % (hint, self.counter)

    def int_info(self, ty):
        t = self.fx.types[ty] if isinstance(ty, int) else None
        if t is None:
            return (64, False)
        if t["k"] == "int":
            return (t["w"], t["s"])
        if t["k"] == "bool":
            return (1, False)
        if t["k"] == "char":
            return (32, False)
        return (64, False)

    def int_range(self, ty):
        w, s = self.int_info(ty)
        if s:
            return (-(1 << (w - 1)), (1 << (w - 1)) - 1)
        return (0, (1 << w) - 1)

    def new_int(self, ty, hint="t", lo=None, hi=None, bits_sym=False):
        s = self.fresh(hint)
        return self.named_int(ty, s, lo, hi, bits_sym)

    def named_int(self, ty, s, lo=None, hi=None, bits_sym=False):
        l, h = self.int_range(ty)
        if lo is not None:
            l = max(l, lo)
        if hi is not None:
            h = min(h, hi)
        self.ranges[s] = (l, h)
        w, sg = self.int_info(ty)
        bits = None
        if bits_sym and not sg:
            bits = tuple(("b", s, k) for k in range(w))
        mask = None
        if l >= 0:
            mask = (1 << max(h, 0).bit_length()) - 1
        return VInt(ty, Lin.sym(s), mask, bits)

    def const_int(self, ty, v):
        return VInt(ty, Lin.const(v), v if v >= 0 else None, None)

    def len_sym(self, name):
        """symbol for a length (0..isize::MAX)"""
        if name not in self.ranges:
            self.ranges[name] = (0, (1 << 63) - 1)
        return Lin.sym(name)

    # ------------------------------------------------------------ types
    def T(self, ty):
        return self.fx.types[ty]

    def find_type(self, pred):
        for i, t in enumerate(self.fx.types):
            if pred(t):
                return i
        return None

    def adt_info(self, ty):
        """returns (adt_def or None, typedict) for a type id / adt name"""
        if isinstance(ty, int):
            t = self.fx.types[ty]
            if t["k"] != "adt":
                return None, t
            return self.fx.adts.get(t["key"]), t
        if isinstance(ty, str):
            a = self.fx.adts_by_name.get(ty)
            return a, {"k": "adt", "name": ty, "key": a["key"] if a else ty, "args": []}
        return None, None

    def adt_name(self, v):
        ty = v.ty
        if isinstance(ty, int):
            t = self.fx.types[ty]
            return t.get("name") if t["k"] == "adt" else None
        return ty

    def variant_fields_tys(self, ty, vidx):
        """field type ids of variant vidx of type ty (None if unknown)"""
        adt, t = self.adt_info(ty)
        if t is None:
            return None
        if t["k"] == "tuple":
            return list(t["of"])
        if adt is not None:
            vs = adt["variants"]
            if vidx < len(vs):
                return [f["ty"] for f in vs[vidx]["fields"]]
            return None
        name = t.get("name", "")
        args = [a for a in t.get("args", []) if isinstance(a, int)]
        if name == "std::option::Option":
            return [] if vidx == 0 else [args[0]]
        if name == "std::result::Result":
            return [args[0]] if vidx == 0 else [args[1]]
        if name == "std::ops::ControlFlow":
            # ControlFlow<B, C>: Continue(C)=0, Break(B)=1
            return [args[1]] if vidx == 0 else [args[0]]
        if name in ("std::ops::Range",):
            return [args[0], args[0]]
        if name in ("std::ops::RangeFrom", "std::ops::RangeTo"):
            return [args[0]]
        return None

    def n_variants(self, ty):
        adt, t = self.adt_info(ty)
        if adt is not None:
            return len(adt["variants"])
        name = (t or {}).get("name", "")
        if name in ("std::option::Option", "std::result::Result", "std::ops::ControlFlow"):
            return 2
        return None

    def discr_of_variant(self, ty, vidx):
        adt, t = self.adt_info(ty)
        if adt is not None and adt["kind"] == "Enum":
            return adt["variants"][vidx]["discr"]
        tt = self.T(ty) if isinstance(ty, int) else None
        if (tt is not None and tt.get("k") == "adt" and str(tt.get("name", "")).endswith("cmp::Ordering")) or ty == "std::cmp::Ordering":
            return vidx - 1        # Less = -1, Equal = 0, Greater = 1 (std, not dumped with the crate's own types)
        return vidx

    def variant_of_discr(self, ty, d):
        adt, t = self.adt_info(ty)
        if adt is not None and adt["kind"] == "Enum":
            for v in adt["variants"]:
                if v["discr"] == d:
                    return v["idx"]
            return None
        return d

    def discr_is_idx(self, ty):
        tt_ = self.T(ty) if isinstance(ty, int) else None
        if (tt_ is not None and tt_.get("k") == "adt" and str(tt_.get("name", "")).endswith("cmp::Ordering")) or ty == "std::cmp::Ordering":
            return False
        adt, t = self.adt_info(ty)
        if adt is not None and adt["kind"] == "Enum":
            return all(v["discr"] == v["idx"] for v in adt["variants"])
        return True

    # ------------------------------------------------------------ symbolic values
    def symval(self, st, ty, name):
        t = self.fx.types[ty]
        k = t["k"]
        if k == "int":
            return self.named_int(ty, name, bits_sym=True)
        if k == "bool":
            return VBool(("bit", name, 0))
        if k == "char":
            return self.named_int(ty, name)
        if k == "tuple":
            if not t["of"]:
                return UNIT
            return VAdt(ty, Lin.const(0), {0: tuple(self.symval(st, x, "%s.%d" % (name, i)) for i, x in enumerate(t["of"]))})
        if k == "array":
            return VArr(t["len"], None, name)
        if k == "adt":
            nm = t["name"]
            if nm in ("std::vec::Vec", "std::string::String"):
                cell = ("obj", name)
                if cell not in st.cells:
                    st.cells[cell] = VVec(self.len_sym("len(%s)" % name), segs=((self.len_sym("len(%s)" % name), ("sym", name)),), name=name)
                return VRef(cell, (), True)
            adt = self.fx.adts.get(t["key"])
            if adt is not None and adt["kind"] == "Struct":
                v = adt["variants"][0]
                return VAdt(ty, Lin.const(0), {0: tuple(self.symval(st, f["ty"], "%s.%s" % (name, f["name"])) for f in v["fields"])})
            nv = self.n_variants(ty)
            if nv is not None:
                ds = name + "#v"
                self.ranges[ds] = (0, nv - 1)
                return VAdt(ty, Lin.sym(ds), {}, base=name)
            return VUnknown(ty, name)
        if k == "ref" or k == "ptr":
            to = self.fx.types[t["to"]]
            if to["k"] == "slice":
                return VSlice(("origin", name), Lin.const(0), self.len_sym("len(%s)" % name), elem=to["of"], mut=t["mut"])
            if to["k"] == "str":
                return VSlice(("origin", name), Lin.const(0), self.len_sym("len(%s)" % name), is_str=True)
            cell = ("obj", name)
            if cell not in st.cells:
                st.cells[cell] = self.symval(st, t["to"], name + ".*")
            return VRef(cell, (), t["mut"])
        if k == "param":
            if "Reader" in t["name"]:
                return VReader(self.len_sym("L(%s)" % name), name, Lin.const(0))
            if "Writer" in t["name"]:
                return VWriter(self.len_sym("W(%s)" % name), name)
            return VUnknown(ty, name)
        return VUnknown(ty, name)

    def variant_fields(self, st, v, vidx):
        """fields tuple of variant vidx of VAdt v, materialising lazily"""
        fs = v.variants.get(vidx)
        if fs is not None:
            return fs
        tys = self.variant_fields_tys(v.ty, vidx)
        if tys is None:
            return None
        base = v.base or self.fresh("lazy")
        adt, t = self.adt_info(v.ty)
        vname = str(vidx)
        if adt is not None:
            vname = adt["variants"][vidx]["name"]
        elif t and t.get("name") == "std::option::Option":
            vname = ["None", "Some"][vidx]
        elif t and t.get("name") == "std::result::Result":
            vname = ["Ok", "Err"][vidx]
        return tuple(self.symval(st, x, "%s.%s.%d" % (base, vname, i)) for i, x in enumerate(tys))

    # ------------------------------------------------------------ obligations
    def site_ordinal(self, fnkey, bb, label):
        """ordinal of (label) at block bb among blocks of fn with the same label"""
        tab = self.site_ord.get(fnkey)
        if tab is None:
            tab = {}
            fn = self.fx.fns.get(fnkey)
            if fn is not None:
                counts = Counter()
                for bi, b in enumerate(fn["body"]["blocks"]):
                    if b["cleanup"]:
                        continue
                    for lab in self.block_labels(b):
                        tab[(bi, lab)] = counts[lab]
                        counts[lab] += 1
            self.site_ord[fnkey] = tab
        return tab.get((bb, label), 0)

    def block_labels(self, b):
        t = b["term"]
        labs = []
        if t["t"] == "call":
            labs.append(self.callee_label(t["func"]))
        elif t["t"] == "assert":
            m = t["msg"]
            labs.append("assert:" + m["kind"] + (":" + m["op"] if "op" in m else ""))
        for st in b["stmts"]:
            if st["s"] == "assign" and st["rv"]["k"] in ("bin", "cast"):
                rv = st["rv"]
                lab = ("op:" + rv["op"]) if rv["k"] == "bin" else "cast:" + rv["kind"]
                if lab not in labs:
                    labs.append(lab)
        return labs

    def callee_label(self, func):
        if "key" not in func:
            return "indirect"
        if func.get("trait") and "self_ty" in func:
            return "%s::%s" % (func["trait"], func["item"])
        r = func.get("resolved")
        return (r or func)["name"]

    def oblig(self, kind, frame, bb, label, ok, st=None, detail=None, ln=None):
        if self.mute:
            return
        fnkey = frame.key if frame is not None else "?"
        ordv = self.site_ordinal(fnkey, bb, label) if bb is not None else 0
        k = (kind, fnkey, label, ordv)
        o = self.obligs.get(k)
        if o is None:
            name = self.fx.fns[fnkey]["name"] if fnkey in self.fx.fns else fnkey
            o = Oblig(kind, name, label, ordv, ln)
            self.obligs[k] = o
        o.total += 1
        o.contexts.add(self.entry_name)
        if not ok:
            o.failed += 1
            if st is not None and not st.ghost.get("unmod"):
                o.clean_failed += 1
            if len(o.samples) < 3:
                samp = {"entry": self.entry_name, "detail": detail,
                        "context": frame.ctxname if frame else None}
                if st is not None:
                    samp["path"] = st.notes()[-12:]
                    samp["constraints"] = [cstr(c) for c in st.cons[-25:]]
                o.samples.append(samp)
        elif len(o.ok_samples) < 1 and detail:
            o.ok_samples.append({"entry": self.entry_name, "detail": detail})

    # ------------------------------------------------------------ entailment helpers
    def ent(self, st, c):
        return entails(st.cons, c, self.ranges)

    def feasible(self, st, focus=None):
        return not unsat(st.cons, self.ranges, focus)

    def add(self, st, c):
        """add constraint; returns False if state became infeasible"""
        e, k = c
        if not e.t:
            ok = (e.c <= 0) if k == "le" else (e.c == 0) if k == "eq" else (e.c != 0)
            return ok
        if k == "ne":
            if self.ent(st, (-e, "le")):        # e >= 0
                c = ((-e) + 1, "le")            # e >= 1
            elif self.ent(st, (e, "le")):
                c = (e + 1, "le")
        st.cons.append(c)
        return not unsat(st.cons, self.ranges, set(c[0].t.keys()))

    def bounds(self, st, e):
        r = bounds(st.cons, e, self.ranges)
        if r == "unsat":
            return (None, None)
        return r

    # ------------------------------------------------------------ bool formulas
    def assume(self, st, f, val):
        """returns list of states (st itself may be reused) in which formula f == val"""
        k = f[0]
        if k == "const":
            return [st] if f[1] == val else []
        if k == "not":
            return self.assume(st, f[1], not val)
        if k == "bit" or k == "sym":
            key = f[1:] if k == "bit" else ("sym", f[1])
            cur = st.bitfacts.get(key)
            if cur is not None:
                return [st] if cur == val else []
            st.bitfacts[key] = val
            # link to integer view of the boolean if one exists
            s = self.boolint.get(f)
            if s is not None:
                if not self.add(st, c_eq(Lin.sym(s), Lin.const(1 if val else 0))):
                    return []
            if k == "bit" and isinstance(f[2], int):
                # ... and to the binary digit, when this path has already used the bit as a number
                m1 = st.divmemo.get((Lin.sym(f[1]).key(), 1 << f[2])) if f[2] > 0 else (None, None)
                q_ = Lin.sym(f[1]) if f[2] == 0 else (Lin.sym(m1[0]) if m1 else None)
                m2 = st.divmemo.get((q_.key(), 2)) if q_ is not None else None
                if m2 is not None:
                    if not self.add(st, c_eq(Lin.sym(m2[1]), Lin.const(1 if val else 0))):
                        return []
            return [st]
        if k == "atom":
            c = f[1]
            if val:
                return [st] if self.add(st, c) else []
            out = []
            alts = negate(c)
            for i, a in enumerate(alts):
                s2 = st if i == len(alts) - 1 else st.fork()
                if self.add(s2, a):
                    out.append(s2)
            return out
        if k == "and" or k == "or":
            conj = (k == "and") == val      # and=True or or=False: both must hold (with val)
            if conj:
                out = []
                for s1 in self.assume(st, f[1], val):
                    out.extend(self.assume(s1, f[2], val))
                return out
            # disjunction: f1==val' or (f1!=val' and f2==val') with val' = val
            s2 = st.fork()
            out = self.assume(st, f[1], val)
            for s3 in self.assume(s2, f[1], not val):
                out.extend(self.assume(s3, f[2], val))
            return out
        raise Abort("assume %r" % (f,))

    def split_bool(self, st, v):
        """case split on an abstract bool value: list of (state, python bool)"""
        if isinstance(v, VRef):
            v = self.load(st, v.cell, v.path)
        if not isinstance(v, VBool):
            f = ("sym", self.fresh("b"))
        else:
            f = v.f
        d = self.bool_value(st, f)
        if d is not None:
            return [(st, d)]
        s2 = st.fork()
        out = [(s, True) for s in self.assume(st, f, True)]
        out += [(s, False) for s in self.assume(s2, f, False)]
        return out

    def bool_value(self, st, f):
        """True/False if decided in st, else None"""
        k = f[0]
        if k == "const":
            return f[1]
        if k == "not":
            r = self.bool_value(st, f[1])
            return None if r is None else (not r)
        if k == "bit":
            return st.bitfacts.get(f[1:])
        if k == "sym":
            return st.bitfacts.get(("sym", f[1]))
        if k == "atom":
            if self.ent(st, f[1]):
                return True
            for a in negate(f[1]):
                if self.ent(st, a):
                    return False
            return None
        if k == "and":
            a, b = self.bool_value(st, f[1]), self.bool_value(st, f[2])
            if a is False or b is False:
                return False
            if a is True and b is True:
                return True
            return None
        if k == "or":
            a, b = self.bool_value(st, f[1]), self.bool_value(st, f[2])
            if a is True or b is True:
                return True
            if a is False and b is False:
                return False
            return None
        return None

    def bool_to_int(self, st, v, ty):
        f = v.f
        if f[0] == "const":
            return self.const_int(ty, 1 if f[1] else 0)
        val = self.bool_value(st, f)
        if val is not None:
            r = self.const_int(ty, 1 if val else 0)
            return r
        w, _ = self.int_info(ty)
        g = f[1] if f[0] == "not" else f
        if g[0] == "bit" and isinstance(g[2], int) and g[1] in self.ranges and (self.ranges[g[1]][0] or 0) >= 0:
            # bit k of a word as a number: the binary digit (exactly linked to the word, so that pinning the word
            # pins it), or its complement
            q_, _r = self.divmod_const(st, Lin.sym(g[1]), 1 << g[2])
            _q, d_ = self.divmod_const(st, q_, 2)
            lin = d_ if f[0] != "not" else Lin.const(1) - d_
            bit0 = ("b", g[1], g[2]) if f[0] != "not" else ("n", g[1], g[2])
            return VInt(ty, lin, 1, (bit0,) + (0,) * (w - 1), taint=v.taint)
        s = self.boolint.get(f)
        if s is None:
            s = self.fresh("b2i")
            self.boolint[f] = s
            self.ranges[s] = (0, 1)
        bit0 = ("b", f[1], f[2]) if f[0] == "bit" else ("f", f)
        bits = (bit0,) + (0,) * (w - 1)
        return VInt(ty, Lin.sym(s), 1, bits, taint=v.taint)

    # ------------------------------------------------------------ bits
    def bits_of(self, v):
        """per-bit provenance (LSB first); unknown bits are None"""
        if v.bits is not None:
            return v.bits
        w, sg = self.int_info(v.ty)
        if v.lin.is_const() and v.lin.c >= 0:
            c = v.lin.c
            return tuple((c >> k) & 1 for k in range(w))
        if v.mask is not None:
            return tuple(None if (v.mask >> k) & 1 else 0 for k in range(w))
        return (None,) * w

    def mask_of(self, st, v):
        if v.lin.is_const():
            return v.lin.c if v.lin.c >= 0 else None
        m = None
        b = v.bits
        if b is not None and any(x == 0 for x in b):
            m = 0
            for k, x in enumerate(b):
                if x != 0:
                    m |= 1 << k
        if v.mask is not None:
            m = v.mask if m is None else (m & v.mask)
        lo, hi = self.bounds(st, v.lin)
        if lo is not None and lo >= 0 and hi is not None:
            m2 = (1 << hi.bit_length()) - 1
            m = m2 if m is None else (m & m2)
        return m

    def divmod_const(self, st, v_lin, c):
        """for non-negative v: v = c*q + r, 0<=r<c; returns (q Lin, r Lin)"""
        if v_lin.is_const():
            return Lin.const(v_lin.c // c), Lin.const(v_lin.c % c)
        if c > 1 and v_lin.t:
            # a common factor of the dividend and the divisor cancels: floor(g*x / (g*m)) = floor(x / m), remainder g * (x mod m)
            from math import gcd
            g = c
            for k in v_lin.t.values():
                g = gcd(g, abs(k))
            g = gcd(g, abs(v_lin.c))
            if 1 < g < c:
                q, r = self.divmod_const(st, Lin({s_: k // g for s_, k in v_lin.t.items()}, v_lin.c // g), c // g)
                return q, r.scale(g)
        if c > 0 and v_lin.c % c == 0 and all(k % c == 0 for k in v_lin.t.values()):
            # exact division: every term is a multiple of c
            return Lin({s: k // c for s, k in v_lin.t.items()}, v_lin.c // c), Lin.const(0)
        if c > 0 and any(k % c == 0 for k in v_lin.t.values()):
            # c*A + B with 0 <= B < c: quotient A, remainder B (e.g. 64*msb + 2*h + 1 divided by 2)
            A = Lin({s: k // c for s, k in v_lin.t.items() if k % c == 0}, v_lin.c // c)
            B = Lin({s: k for s, k in v_lin.t.items() if k % c != 0}, v_lin.c % c)
            lo_b, hi_b = self.bounds(st, B)
            lo_a, _hi_a = self.bounds(st, A)
            if lo_b is not None and hi_b is not None and lo_b >= 0 and hi_b < c and lo_a is not None and lo_a >= 0:
                return A, B
        key = (v_lin.key(), c)
        m = st.divmemo.get(key)
        if m is None:
            # content-addressed names: the same dividend/divisor gives the same symbols on every path
            q = "q[%r/%d]" % (v_lin, c)
            r = "r[%r/%d]" % (v_lin, c)
            lo, hi = self.bounds(st, v_lin)
            rq = (0 if (lo is not None and lo >= 0) else None, None if hi is None else hi // c)
            old = self.ranges.get(q)
            if old is not None:
                rq = (rq[0] if old[0] is None else (old[0] if rq[0] is None else min(old[0], rq[0])),
                      None if (old[1] is None or rq[1] is None) else max(old[1], rq[1]))
            self.ranges[q] = rq
            self.ranges[r] = (0, c - 1)
            m = (q, r)
            st.divmemo[key] = m
            d = c_eq(v_lin, Lin.sym(q).scale(c) + Lin.sym(r))
            st.cons.append(d)
            st.ghost.setdefault("defs", set())
            st.ghost["defs"] = st.ghost["defs"] | {d[0].key()}
            if lo is not None and lo >= 0:
                b1 = c_le(Lin.const(0), Lin.sym(q))
                st.cons.append(b1)
                st.ghost["defs"] = st.ghost["defs"] | {b1[0].key()}
            if hi is not None:
                b2 = c_le(Lin.sym(q), Lin.const(hi // c))
                st.cons.append(b2)
                st.ghost["defs"] = st.ghost["defs"] | {b2[0].key()}
        return Lin.sym(m[0]), Lin.sym(m[1])

    # ------------------------------------------------------------ region marks (C11/C12 segmentation; refined later)
    def region_state(self, st, cell, vec, s):
        return None

    def marks_extend(self, st, vec, n):
        return vec.marks

    # ------------------------------------------------------------ entry points
    def arg_names(self, fn):
        body = fn["body"]
        names = {}
        for n in body["names"]:
            if n.get("arg") is not None and not n["place"]["p"]:
                names[n["place"]["l"]] = n["name"]
        return [names.get(i + 1, "arg%d" % (i + 1)) for i in range(body["arg_count"])]

    def analyse(self, key, args=None, name=None, setup=None, state=None):
        """analyse fn `key` from a symbolic entry state.  args: optional list of values (None
        entries are replaced by symbolic values of the parameter type).  setup(engine, st, argvals)
        may add entry constraints.  Returns list of (state, return value)."""
        fn = self.fx.fns[key]
        body = fn["body"]
        self.entry_name = name or fn["name"]
        st = state or State()
        names = self.arg_names(fn)
        vals = []
        for i in range(body["arg_count"]):
            v = args[i] if args is not None and i < len(args) and args[i] is not None else None
            if v is None:
                v = self.symval(st, body["locals"][i + 1], names[i])
            vals.append(v)
        if setup:
            setup(self, st, vals)
        frame = self.new_frame(fn, body, None)
        for i, v in enumerate(vals):
            st.cells[frame.cells[i + 1]] = v
        res = self.explore(frame, [(st, 0)])
        return res["ret"]

    def failed_obligs(self, kinds=None):
        return [o for o in self.obligs.values() if o.failed and (kinds is None or o.kind in kinds)]
