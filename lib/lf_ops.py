"""lenflow: operands, constants, rvalues, arithmetic/bit operators, casts."""
from lin import Lin, c_le, c_lt, c_eq, c_ne
from absval import *


class Alts:
    """statement-level fork: list of (state, value)"""
    def __init__(self, items):
        self.items = items


CMP = {"Eq", "Ne", "Lt", "Le", "Gt", "Ge"}


class OpsMixin:
    # ------------------------------------------------------------ constants
    def const_param(self, frame, name):
        """value of the const generic parameter `name` in the instance `frame` analyses, or None"""
        gs = frame.fn.get("generics") or []
        ga = getattr(frame, "gargs", None) or []
        if name in gs and len(ga) == len(gs):
            a = ga[gs.index(name)]
            if isinstance(a, dict) and isinstance(a.get("const"), int):
                return a["const"]
        return None

    def array_len(self, frame, t):
        """length of array type t as seen from `frame` (a const generic length is known per instance)"""
        if t.get("len") is not None:
            return t["len"]
        if t.get("len_param") and frame is not None:
            return self.const_param(frame, t["len_param"])
        return None

    def eval_const(self, st, frame, c):
        if "fn" in c:
            return VFn(c["fn"])
        if "usize" in c:
            return self.const_int(self.usize_ty(), c["usize"])       # constants of the synthetic bodies (lib/synth.py)
        ty = c.get("ty")
        t = self.fx.types[ty] if ty is not None else {"k": "other"}
        if "bits" in c:
            b = c["bits"]
            if t["k"] == "bool":
                return TRUE if b else FALSE
            if t["k"] == "int":
                if t["s"] and b >= (1 << (t["w"] - 1)):
                    b -= 1 << t["w"]
                return self.const_int(ty, b)
            if t["k"] == "char":
                return self.const_int(ty, b)
            return VUnknown(ty, self.fresh("constbits"))
        if "zst" in c:
            if t["k"] == "fndef":
                return VFn({"key": t["key"], "name": t["name"], "args": t["args"], "local": t["key"].startswith(self.fx.crate + "::")})
            if t["k"] == "closure":
                return VClosure(t["key"], ())
            if t["k"] == "tuple":
                return UNIT
            if t["k"] == "adt":
                return VAdt(ty, Lin.const(0), {0: ()})
            return UNIT
        if "bytes" in c:
            is_str = t["k"] == "ref" and self.fx.types[t["to"]]["k"] == "str"
            data = tuple(c["bytes"])
            return VSlice(("const", data), Lin.const(0), Lin.const(len(data)), elem=self.u8_ty(), is_str=is_str)
        if "array_bytes" in c:
            et = t["of"]
            return VArr(len(c["array_bytes"]), tuple(self.const_int(et, x) for x in c["array_bytes"]))
        if "array_const" in c:
            return VArr(len(c["array_const"]), tuple(self.eval_const(st, frame, e) for e in c["array_const"]))
        if "adt_const" in c:
            ac = c["adt_const"]
            return VAdt(ty, Lin.const(ac["variant"]), {ac["variant"]: tuple(self.eval_const(st, frame, f) for f in ac["fields"])})
        if "const_param" in c:
            # a const generic parameter: its value in this instance, or one symbol per parameter of this frame
            v = self.const_param(frame, c["const_param"])
            if v is not None:
                return self.const_int(ty, v)
            return self.named_int(ty, "%s<%d>" % (c["const_param"], frame.fid))
        if "assoc_const" in c:
            # `Self::NAME` in a trait's default method: the value the implementing type gives it
            ga = getattr(frame, "gargs", None) or []
            self_ty = next((g for g in ga if isinstance(g, int)), None)
            if self_ty is not None:
                for k in self.fx.raw.get("consts", []):
                    if k.get("item") == c["assoc_const"] and k.get("self_ty") == self_ty and isinstance(k.get("value"), dict):
                        return self.eval_const(st, frame, k["value"])
            self.unmodelled["assoc const %s::%s" % (c.get("trait"), c["assoc_const"])] += 1
            return VUnknown(ty, self.fresh("assoc")) if t["k"] != "int" else self.top_int(ty)
        if "static" in c:
            cell = ("static", c["static"])
            if cell not in st.cells:
                st.cells[cell] = VUnknown(None, "static:" + c["static"])
            return VRef(cell, (), False)
        if "promoted" in c:
            cell = ("prom", frame.key, c["promoted"])
            if cell not in st.cells:
                body = frame.fn["promoted"][c["promoted"]]
                pf = self.new_frame(frame.fn, body, frame, persistent=True, tag="promoted[%d]" % c["promoted"])
                res = self.explore(pf, [(st, 0)])
                rets = res["ret"]
                if len(rets) != 1 or rets[0][0] is not st:
                    raise Abort("promoted body forked")
                st.cells[cell] = rets[0][1]
            return st.cells[cell]
        return VUnknown(ty, self.fresh("const"))

    def eval_operand(self, st, frame, o):
        if "copy" in o:
            return self.read_place(st, frame, o["copy"])
        if "move" in o:
            return self.read_place(st, frame, o["move"])
        if "const" in o:
            return self.eval_const(st, frame, o["const"])
        # RuntimeChecks(..): debug-only UB checks; value is a bool we leave unknown-false
        return FALSE

    def table_lookup(self, st, frame, o):
        """`TABLE[i]` with a small table of known entries and an index that is not a constant: one case per entry"""
        pl = o.get("copy") or o.get("move")
        if not pl or not pl["p"] or not isinstance(pl["p"][-1], dict) or "idx" not in pl["p"][-1]:
            return None
        iv = self.load(st, frame.cells[pl["p"][-1]["idx"]], ())
        if not isinstance(iv, VInt) or iv.lin.is_const():
            return None
        try:
            base = self.read_place(st, frame, {"l": pl["l"], "p": pl["p"][:-1]})
        except Abort:
            return None
        if not isinstance(base, VArr) or base.elems is None or not (2 <= len(base.elems) <= 32):
            return None
        if not all(isinstance(e, VInt) and e.lin.is_const() or isinstance(e, VAdt) and e.vidx.is_const() and not any(e.variants.values())
                   for e in base.elems):
            return None
        alts = []
        for i, e in enumerate(base.elems):
            s2 = st.fork()
            if self.add(s2, c_eq(iv.lin, Lin.const(i))):
                alts.append((s2, e))
        return Alts(alts) if alts else None

    def operand_ty(self, frame, o):
        if "copy" in o:
            return self.place_ty(frame, o["copy"])
        if "move" in o:
            return self.place_ty(frame, o["move"])
        if "const" in o:
            return o["const"].get("ty")
        return None

    # ------------------------------------------------------------ rvalues
    def eval_rvalue(self, st, frame, bb, rv, dest_ty, ln=None):
        k = rv["k"]
        if k == "use":
            alt = self.table_lookup(st, frame, rv["op"])
            if alt is not None:
                return alt
            return self.eval_operand(st, frame, rv["op"])
        if k in ("ref", "rawptr"):
            loc = self.resolve_place(st, frame, rv["place"])
            if loc[0] == "slice":
                return loc[1]
            v = self.load(st, loc[0], loc[1])
            if isinstance(v, VSlice) and False:
                return v
            return VRef(loc[0], loc[1], rv["mut"])
        if k == "cast":
            v = self.eval_operand(st, frame, rv["op"])
            return self.cast(st, frame, bb, rv["kind"], v, rv["ty"], ln)
        if k == "bin":
            a = self.eval_operand(st, frame, rv["l"])
            b = self.eval_operand(st, frame, rv["r"])
            return self.binop(st, frame, bb, rv["op"], a, b, dest_ty, ln, self.operand_ty(frame, rv["l"]))
        if k == "un":
            x = self.eval_operand(st, frame, rv["x"])
            return self.unop(st, rv["op"], x, dest_ty)
        if k == "discr":
            v = self.read_place(st, frame, rv["place"])
            pty = self.place_ty(frame, rv["place"])
            return self.discriminant(st, v, pty, dest_ty, frame, rv["place"])
        if k == "agg":
            ops = tuple(self.eval_operand(st, frame, o) for o in rv["ops"])
            kd = rv["kind"]
            a = kd["agg"]
            if a == "array":
                return VArr(len(ops), ops)
            if a == "tuple":
                if not ops:
                    return UNIT
                return VAdt(dest_ty, Lin.const(0), {0: ops})
            if a == "adt":
                ty = dest_ty if dest_ty is not None and self.T(dest_ty)["k"] == "adt" and self.T(dest_ty)["name"] == kd["name"] else kd["name"]
                return VAdt(ty, Lin.const(kd["variant"]), {kd["variant"]: ops})
            if a == "closure":
                return VClosure(kd["key"], ops)
            return VUnknown(dest_ty, self.fresh("agg"))
        if k == "repeat":
            v = self.eval_operand(st, frame, rv["op"])
            n = rv["n"]
            if n is not None and n <= 64:
                return VArr(n, tuple([v] * n))
            return VArr(n, None, self.fresh("rep"))
        self.unmodelled["rvalue:" + k] += 1
        return VUnknown(dest_ty, self.fresh("rv"))

    def discriminant(self, st, v, pty, dest_ty, frame=None, place=None):
        if isinstance(v, VUnknown):
            ty = v.ty if v.ty is not None else pty
            if ty is not None:
                mv = self.symval(st, ty, v.name or self.fresh("u"))
                if isinstance(mv, VAdt):
                    if frame is not None and place is not None:
                        self.write_place(st, frame, place, mv)
                    v = mv
        if isinstance(v, VAdt):
            ty = v.ty if v.ty is not None else pty
            if v.vidx.is_const():
                return self.const_int(dest_ty, self.discr_of_variant(ty, v.vidx.c))
            if self.discr_is_idx(ty):
                return VInt(dest_ty, v.vidx)
        if isinstance(v, VBool):
            return self.bool_to_int(st, v, dest_ty)
        return self.new_int(dest_ty, "discr") if dest_ty is not None else VUnknown(None, self.fresh("discr"))

    # ------------------------------------------------------------ unary
    def unop(self, st, op, x, ty):
        if op == "Not":
            if isinstance(x, VBool):
                f = x.f
                if f[0] == "const":
                    return FALSE if f[1] else TRUE
                if f[0] == "not":
                    return VBool(f[1], x.taint)
                return VBool(("not", f), x.taint)
            if isinstance(x, VInt):
                w, sg = self.int_info(x.ty)
                if not sg:
                    bits = self.bits_of(x)
                    nb = None
                    if bits is not None:
                        nb = tuple((1 - b) if b in (0, 1) else (("n",) + b[1:] if b and b[0] == "b" else None) for b in bits)
                    return VInt(x.ty, Lin.const((1 << w) - 1) - x.lin, None, nb, x.taint)
            return self.new_int(ty, "not") if ty is not None and self.T(ty)["k"] == "int" else VUnknown(ty, self.fresh("not"))
        if op == "Neg":
            if isinstance(x, VInt):
                return VInt(x.ty, -x.lin, None, None, x.taint)
            return VUnknown(ty, self.fresh("neg"))
        if op == "PtrMetadata":
            if isinstance(x, VSlice):
                return VInt(self.usize_ty(), x.len)
            return self.new_int(self.usize_ty(), "meta")
        self.unmodelled["unop:" + op] += 1
        return VUnknown(ty, self.fresh("un"))

    # ------------------------------------------------------------ binary
    def taint2(self, a, b):
        ta = getattr(a, "taint", None)
        tb = getattr(b, "taint", None)
        if ta is None:
            return tb
        if tb is None:
            return ta
        return ta | tb

    def binop(self, st, frame, bb, op, a, b, dest_ty, ln=None, opnd_ty=None):
        tn = self.taint2(a, b)
        if op in CMP:
            r = self.compare(st, op, a, b)
            if tn is not None:
                # a difference/comparison of two absolute positions is still position dependent
                r = VBool(r.f, tn)
            return r
        if op == "Cmp":
            return VUnknown(dest_ty, self.fresh("ord"))
        if isinstance(a, VBool) and isinstance(b, VBool):
            if op == "BitAnd":
                return self.bool_and(a, b)
            if op == "BitOr":
                return self.bool_or(a, b)
            if op == "BitXor":
                return self.bool_or(self.bool_and(a, self.unop(st, "Not", b, None)), self.bool_and(self.unop(st, "Not", a, None), b))
        if not isinstance(a, VInt) or not isinstance(b, VInt):
            if op.endswith("WithOverflow"):
                rty = self.tuple_field_ty(dest_ty, 0)
                return VAdt(dest_ty, Lin.const(0), {0: (self.top_int(rty or opnd_ty), VBool(("sym", self.fresh("ovf"))))})
            if op == "Offset":
                return VUnknown(dest_ty, self.fresh("ptr"))
            return self.top_int(dest_ty if dest_ty is not None else opnd_ty)
        ty = a.ty if a.ty is not None else opnd_ty
        lo, hi = self.int_range(ty)
        w, sg = self.int_info(ty)
        base = op.replace("WithOverflow", "").replace("Unchecked", "")
        if base in ("Add", "Sub", "Mul"):
            if base == "Add":
                m = a.lin + b.lin
            elif base == "Sub":
                m = a.lin - b.lin
            else:
                if a.lin.is_const():
                    m = b.lin.scale(a.lin.c)
                elif b.lin.is_const():
                    m = a.lin.scale(b.lin.c)
                else:
                    m = None
            # a difference of two absolute positions is position independent
            if base == "Sub" and a.taint and b.taint:
                tn = None
            if op.endswith("WithOverflow"):
                if m is None:
                    # non-linear product: result unknown, overflow unknown
                    res = self.top_int(ty)
                    flag = VBool(("sym", self.fresh("mulovf")))
                    # try range-based proof
                    la, ha = self.bounds(st, a.lin)
                    lb, hb = self.bounds(st, b.lin)
                    if None not in (la, ha, lb, hb) and la >= 0 and lb >= 0 and ha * hb <= hi:
                        flag = FALSE
                        self.ranges[next(iter(res.lin.t))] = (la * lb, ha * hb)
                    return VAdt(dest_ty, Lin.const(0), {0: (res, flag)})
                over = ("atom", c_le(Lin.const(hi + 1), m))      # m >= hi+1
                under = ("atom", c_le(m, Lin.const(lo - 1)))     # m <= lo-1
                if base == "Add" and not sg:
                    f = over
                elif base == "Sub" and not sg:
                    f = under
                elif base == "Mul" and not sg:
                    f = over
                else:
                    f = ("or", over, under)
                res = VInt(ty, m, None, None, tn)
                return VAdt(dest_ty, Lin.const(0), {0: (res, VBool(f))})
            # plain / unchecked: must not wrap
            label = "op:" + op
            if m is None:
                la, ha = self.bounds(st, a.lin)
                lb, hb = self.bounds(st, b.lin)
                res = self.top_int(ty)
                ok = None not in (la, ha, lb, hb) and la >= 0 and lb >= 0 and ha * hb <= hi
                if ok:
                    self.ranges[next(iter(res.lin.t))] = (la * lb, ha * hb)
                self.oblig("arith", frame, bb, label, ok, st, "non-linear product may wrap", ln)
                return res
            ok_hi = self.ent(st, c_le(m, Lin.const(hi)))
            ok_lo = self.ent(st, c_le(Lin.const(lo), m))
            if ok_hi and ok_lo:
                self.oblig("arith", frame, bb, label, True, st, None, ln)
                return VInt(ty, m, None, None, tn)
            self.oblig("arith", frame, bb, label, False, st,
                       "%s may wrap: value %r not proven within [%d, %d]" % (base, m, lo, hi), ln)
            if sg or base == "Mul":
                return self.top_int(ty)
            # unsigned wrap: fork into the exact cases
            alts = []
            cases = [(Lin.const(0), [c_le(Lin.const(lo), m), c_le(m, Lin.const(hi))])]
            if not ok_hi:
                cases.append((Lin.const(-(1 << w)), [c_le(Lin.const(hi + 1), m)]))
            if not ok_lo:
                cases.append((Lin.const(1 << w), [c_le(m, Lin.const(lo - 1))]))
            for off, cs in cases:
                s2 = st.fork()
                good = True
                for c in cs:
                    if not self.add(s2, c):
                        good = False
                        break
                if good:
                    alts.append((s2, VInt(ty, m + off, None, None, tn)))
            return Alts(alts)
        if base in ("Div", "Rem"):
            if b.lin.is_const() and b.lin.c > 0 and self.ent(st, c_le(Lin.const(0), a.lin)):
                q, r = self.divmod_const(st, a.lin, b.lin.c)
                return VInt(ty, q if base == "Div" else r, None, None, tn)
            return self.top_int(ty)
        if base in ("Shl", "Shr"):
            if not b.lin.is_const():
                return self.top_int(ty)
            k = b.lin.c
            if k < 0 or k >= w:
                return self.top_int(ty)
            bits = self.bits_of(a)
            if base == "Shr":
                nb = None if bits is None else tuple(bits[k:]) + (0,) * k
                if sg and not self.ent(st, c_le(Lin.const(0), a.lin)):
                    return self.top_int(ty)
                q, r = self.divmod_const(st, a.lin, 1 << k) if k else (a.lin, None)
                ma = self.mask_of(st, a)
                return VInt(ty, q, None if ma is None else ma >> k, nb, tn)
            nb = None if bits is None else ((0,) * k + tuple(bits))[:w]
            ma = self.mask_of(st, a)
            full = (1 << w) - 1
            if ma is not None and (ma << k) <= (hi if not sg else full):
                return VInt(ty, a.lin.scale(1 << k), ma << k, nb, tn)
            # bits shifted out: (a mod 2^(w-k)) * 2^k
            if not sg and self.ent(st, c_le(Lin.const(0), a.lin)):
                q, r = self.divmod_const(st, a.lin, 1 << (w - k))
                return VInt(ty, r.scale(1 << k), None if ma is None else (ma << k) & full, nb, tn)
            return self.top_int(ty)
        if base in ("BitAnd", "BitOr", "BitXor"):
            ba, bbits = self.bits_of(a), self.bits_of(b)
            nb = None
            if ba is not None and bbits is not None:
                nb = tuple(self.bit_op(base, x, y) for x, y in zip(ba, bbits))
            ma, mb = self.mask_of(st, a), self.mask_of(st, b)
            if base == "BitAnd":
                # constant low mask: x mod 2^k
                for x, y, mx in ((a, b, ma), (b, a, mb)):
                    if y.lin.is_const() and y.lin.c >= 0:
                        c = y.lin.c
                        if c == 0:
                            return VInt(ty, Lin.const(0), 0, nb, tn)
                        if mx is not None and (mx & ~c) == 0:
                            return VInt(ty, x.lin, mx, nb if nb is not None else x.bits, tn)   # mask is a no-op
                        if (c & (c + 1)) == 0 and self.ent(st, c_le(Lin.const(0), x.lin)):
                            q, r = self.divmod_const(st, x.lin, c + 1)
                            return VInt(ty, r, c if mx is None else (mx & c), nb, tn)
                        tz = (c & -c).bit_length() - 1
                        top = c >> tz
                        if tz > 0 and (top & (top + 1)) == 0 and self.ent(st, c_le(Lin.const(0), x.lin)):
                            # contiguous field mask ((2^n - 1) << tz): the field value, scaled back into place
                            q1, _ = self.divmod_const(st, x.lin, 1 << tz)
                            _, r2 = self.divmod_const(st, q1, top + 1)
                            return VInt(ty, r2.scale(1 << tz), c if mx is None else (mx & c), nb, tn)
                        # general constant mask: keep range only
                        res = self.top_int(ty, 0, c if mx is None else (mx & c))
                        return VInt(ty, res.lin, c if mx is None else (mx & c), nb, tn)
                m = None
                if ma is not None and mb is not None:
                    m = ma & mb
                elif ma is not None:
                    m = ma
                elif mb is not None:
                    m = mb
                res = self.top_int(ty, 0, m)
                return VInt(ty, res.lin, m, nb, tn)
            if base in ("BitOr", "BitXor"):
                # an aligned value or-ed with a small offset (chunk_start | j): or == xor == add
                for x, y in ((a, b), (b, a)):
                    lo_y, hi_y = self.bounds(st, y.lin)
                    if lo_y is None or hi_y is None or lo_y < 0:
                        continue
                    k = max(1, int(hi_y).bit_length())
                    m = 1 << k
                    if x.lin.c % m == 0 and all(cf % m == 0 for cf in x.lin.t.values()) and self.ent(st, c_le(Lin.const(0), x.lin)):
                        return VInt(ty, x.lin + y.lin, None, nb, tn)
            if ma is not None and mb is not None:
                if (ma & mb) == 0:
                    # disjoint bits: or == xor == add
                    return VInt(ty, a.lin + b.lin, ma | mb, nb, tn)
                res = self.top_int(ty, 0, ma | mb)
                return VInt(ty, res.lin, ma | mb, nb, tn)
            res = self.top_int(ty)
            return VInt(ty, res.lin, None, nb, tn)
        if op == "Offset":
            return VUnknown(dest_ty, self.fresh("ptr"))
        self.unmodelled["binop:" + op] += 1
        return self.top_int(dest_ty)

    def primary_syms(self):
        """symbols that stand for a whole wire/argument integer (their zero test stays a linear atom)"""
        return self.ranges

    def bit_op(self, op, x, y):
        if op == "BitAnd":
            if x == 0 or y == 0:
                return 0
            if x == 1:
                return y
            if y == 1:
                return x
            return x if x == y else None
        if op == "BitOr":
            if x == 1 or y == 1:
                return 1
            if x == 0:
                return y
            if y == 0:
                return x
            return x if x == y else None
        # xor
        if x == 0:
            return y
        if y == 0:
            return x
        if x in (0, 1) and y in (0, 1):
            return x ^ y
        if x is not None and x == y:
            return 0
        return None

    def tuple_field_ty(self, ty, i):
        if ty is None:
            return None
        t = self.T(ty)
        if t["k"] == "tuple" and i < len(t["of"]):
            return t["of"][i]
        return None

    def top_int(self, ty, lo=None, hi=None):
        if ty is None:
            ty = self.usize_ty()
        if self.T(ty)["k"] not in ("int", "char", "bool"):
            return VUnknown(ty, self.fresh("top"))
        return self.new_int(ty, "top", lo, hi)

    def bool_and(self, a, b):
        if a.f[0] == "const":
            return b if a.f[1] else FALSE
        if b.f[0] == "const":
            return a if b.f[1] else FALSE
        return VBool(("and", a.f, b.f), self.taint2(a, b))

    def bool_or(self, a, b):
        if a.f[0] == "const":
            return TRUE if a.f[1] else b
        if b.f[0] == "const":
            return TRUE if b.f[1] else a
        return VBool(("or", a.f, b.f), self.taint2(a, b))

    def compare(self, st, op, a, b):
        if isinstance(a, VBool) and isinstance(b, VBool):
            if op in ("Eq", "Ne"):
                eq = self.bool_or(self.bool_and(a, b), self.bool_and(self.unop(st, "Not", a, None), self.unop(st, "Not", b, None)))
                return eq if op == "Eq" else self.unop(st, "Not", eq, None)
            return VBool(("sym", self.fresh("bcmp")))
        if isinstance(a, VInt) and isinstance(b, VInt):
            x, y = a.lin, b.lin
            # single-bit test:  (v & (1<<k)) != 0   with v's bit known by provenance
            if op in ("Ne", "Eq") and (y.is_const() and y.c == 0 or x.is_const() and x.c == 0):
                v = a if (y.is_const() and y.c == 0) else b
                bits = v.bits
                if bits is not None:
                    nz = [bt for bt in bits if bt != 0]
                    if len(nz) == 0:
                        return TRUE if op == "Eq" else FALSE
                    own = next(iter(v.lin.t)) if (len(v.lin.t) == 1 and v.lin.c == 0) else None
                    # a value that is an exact quotient/remainder of a wider value (a field carved out of a word that
                    # was read in one go) is compared as a number, like a field read on its own
                    carved = own is not None and any(own in qr for qr in st.divmemo.values())
                    if 1 < len(nz) <= 16 and not carved and not all(isinstance(bt, tuple) and bt[1] == own for bt in nz) \
                            and all(isinstance(bt, tuple) and bt[0] in ("b", "n") for bt in nz):
                        # (v & mask) != 0 with several provenance bits: disjunction of the bits
                        f = None
                        for bt in nz:
                            g = ("bit", bt[1], bt[2]) if bt[0] == "b" else ("not", ("bit", bt[1], bt[2]))
                            f = g if f is None else ("or", f, g)
                        return VBool(f if op == "Ne" else ("not", f))
                    if len(nz) == 1 and nz[0] is not None and nz[0] != 1:
                        bt = nz[0]
                        f = ("bit", bt[1], bt[2]) if bt[0] == "b" else (bt[1] if bt[0] == "f" else None)
                        if bt[0] == "n":
                            f = ("not", ("bit", bt[1], bt[2]))
                        if f is not None:
                            return VBool(f if op == "Ne" else ("not", f))
            if op == "Eq":
                c = c_eq(x, y)
            elif op == "Ne":
                c = c_ne(x, y)
            elif op == "Lt":
                c = c_lt(x, y)
            elif op == "Le":
                c = c_le(x, y)
            elif op == "Gt":
                c = c_lt(y, x)
            else:
                c = c_le(y, x)
            e, k = c
            if not e.t:
                ok = (e.c <= 0) if k == "le" else (e.c == 0) if k == "eq" else (e.c != 0)
                return TRUE if ok else FALSE
            return VBool(("atom", c))
        return VBool(("sym", self.fresh("cmp")))

    # ------------------------------------------------------------ casts
    def cast(self, st, frame, bb, kind, v, ty, ln=None):
        t = self.T(ty)
        if kind == "IntToInt":
            if isinstance(v, VBool):
                return self.bool_to_int(st, v, ty)
            if isinstance(v, VAdt):
                d = self.discriminant(st, v, None, ty)
                return d
            if not isinstance(v, VInt):
                return self.top_int(ty)
            lo, hi = self.int_range(ty)
            w, sg = self.int_info(ty)
            bits = self.bits_of(v)
            nb = None
            if bits is not None:
                nb = tuple(bits[:w]) + (0,) * max(0, w - len(bits))
                sw, ssg = self.int_info(v.ty)
                if ssg and w > sw:
                    nb = None
            fits = self.ent(st, c_le(v.lin, Lin.const(hi))) and self.ent(st, c_le(Lin.const(lo), v.lin))
            sw, ssg = self.int_info(v.ty)
            narrowing = (w < sw) or (ssg != sg)
            if narrowing and not self.mute:
                self.oblig("narrow", frame, bb, "cast:IntToInt", fits, st,
                           None if fits else "value %r not proven to fit %s" % (v.lin, t.get("n")), ln)
            if fits:
                m = v.mask if v.mask is None else v.mask & ((1 << w) - 1 if not sg else v.mask)
                return VInt(ty, v.lin, m, nb, v.taint)
            if not sg and self.ent(st, c_le(Lin.const(0), v.lin)):
                q, r = self.divmod_const(st, v.lin, 1 << w)
                return VInt(ty, r, None if v.mask is None else v.mask & ((1 << w) - 1), nb, v.taint)
            res = self.top_int(ty)
            return VInt(ty, res.lin, None, nb, v.taint)
        if kind.startswith("PointerCoercion"):
            if "Unsize" in kind:
                if isinstance(v, VRef):
                    tgt = self.load(st, v.cell, v.path)
                    if isinstance(tgt, VArr):
                        ety = None
                        if t["k"] in ("ref", "ptr"):
                            tt = self.T(t["to"])
                            if tt["k"] == "slice":
                                ety = tt["of"]
                        return VSlice(("loc", v.cell, v.path), Lin.const(0), Lin.const(tgt.n), elem=ety, mut=v.mut)
                return v
            return v
        if kind in ("Transmute", "PtrToPtr", "FnPtrToPtr"):
            return v
        if kind in ("IntToFloat", "FloatToInt", "FloatToFloat"):
            return VUnknown(ty, self.fresh("float"))
        return VUnknown(ty, self.fresh("cast"))
