"""Check framework: facts, findings, known findings, evidence, exit codes."""
import json
import os
import sys
import time

VERIF = os.path.dirname(os.path.dirname(os.path.abspath(__file__)))
OUT = os.environ.get("VERIF_OUT", VERIF)      # evidence/ and findings/ of self-test sub-runs go elsewhere
sys.path.insert(0, os.path.join(VERIF, "lib"))

import runfacts  # noqa: E402
from facts import Facts  # noqa: E402

TRUSTED_BASE = [
    "rustc MIR construction, type checking and trait resolution (nightly 1.97, -Zmir-opt-level=0)",
    "stub table lib/stubs.py + lib/stubs2.py: one-line semantics of core/alloc/std, md5 0.7, phf 0.11, num_enum 0.7",
    "Reader/Writer contract tables in lib/stubs.py (reading of src/common/reader.rs, writer.rs)",
    "soundness of lib/lin.py Fourier-Motzkin entailment (can only fail to prove)",
    "allocation failure and stack exhaustion out of scope; lengths <= isize::MAX",
]


class Sub:
    """view of a Check that files obligations under a key prefix (clauses borrowed from another rule module)"""

    def __init__(self, parent, prefix, pred=None):
        self.parent = parent
        self.prefix = prefix
        self.pred = pred          # key filter: only these clauses of the other rule belong to this property
        self.forwarded = 0

    def __getattr__(self, k):
        return getattr(self.parent, k)

    def oblig(self, ok, key, summary, detail=None, sample=None):
        if self.pred is not None and not self.pred(key):
            return
        self.forwarded += 1
        self.parent.oblig(ok, self.prefix + key, summary, detail, sample)

    def violation(self, key, summary, detail=None, hard=False):
        if self.pred is not None and not self.pred(key):
            return
        self.parent.violation(self.prefix + key, summary, detail, hard=hard)

    def require_anchor(self, cond, what, hard=False):
        if self.pred is not None:
            return cond           # the lending rule reports its own anchors; the borrower checks `forwarded` instead
        return self.parent.require_anchor(cond, self.prefix + what, hard=hard)

    def borrow(self, module, config, floor, what):
        """run the other rule's clauses for one MIR configuration and require that at least `floor` of them applied"""
        before = self.forwarded
        module.run_config(self, config)
        self.parent.require_anchor(self.forwarded - before >= floor,
                                   "%s%s: %d clause(s) evaluated, expected at least %d" % (self.prefix, what, self.forwarded - before, floor))

    def add_engine_obligs(self, *a, **kw):
        return Check.add_engine_obligs(self, *a, **kw)

    def finish(self, *a, **kw):
        raise RuntimeError("a borrowed clause must not finish the check")


class Check:
    def __init__(self, pid, tier="quick", repo=None):
        self.pid = pid
        self.tier = tier
        self.seed = int(os.environ.get("VERIF_SEED", "0") or 0)
        self.t0 = time.time()
        self.repo = repo or os.environ.get("L2TP_REPO", "/repo")
        self.findings = []       # dicts: key, summary, detail
        self.notes = []
        self.samples = []
        self.obligations = 0
        self.discharged = 0
        self.extra = {}
        self._facts = {}
        self.analysed = {"functions": set(), "entries": []}
        self.keys = []
        self.engines = []                # every abstract-interpretation engine this check created
        self.used_contracts = {}         # (trait, method) pairs whose contract some engine of this check applied

    # ------------------------------------------------------------ facts
    def facts(self, config="default"):
        if config not in self._facts:
            path, sh, secs, reused = runfacts.generate(config, self.repo)
            fx = Facts(path)
            fx.source_hash = sh
            self._facts[config] = fx
            self.extra.setdefault("facts", {})[config] = {
                "source_hash": sh, "seconds": round(secs, 2), "reused_for_identical_source": reused,
                "fn_bodies": len(fx.fns)}
        return self._facts[config]

    # ------------------------------------------------------------ findings
    def violation(self, key, summary, detail=None, hard=False):
        """hard: the finding stands even when the analysis was incomplete (a missing function, a call into a
        panicking class of callee); other findings of an incomplete analysis are reported as undecided"""
        for f in self.findings:
            if f["key"] == key:
                f["hard"] = f.get("hard") or hard
                return
        self.findings.append({"key": key, "summary": summary, "detail": detail, "hard": hard})

    def oblig(self, ok, key, summary, detail=None, sample=None):
        """one proof obligation of the property"""
        self.obligations += 1
        self.keys.append(key)
        if ok:
            self.discharged += 1
            if sample is not None and len(self.samples) < 12:
                self.samples.append(sample)
        else:
            self.violation(key, summary, detail)

    def require_anchor(self, cond, what, hard=False):
        if not cond:
            self.violation("anchor | %s" % what, "anchor missing or below floor: %s" % what,
                           {"rule": "anchor", "note": "a rule that matches nothing would pass vacuously"}, hard=hard)
        return cond

    def add_engine_obligs(self, eng, kinds, prop_rule, allow=None, only_fns=None):
        """turn E1 obligations of the given kinds into property obligations"""
        n = 0
        for o in eng.obligs.values():
            if o.kind not in kinds:
                continue
            if only_fns is not None and not only_fns(o):
                continue
            if allow is not None and allow(o):
                continue
            n += 1
            key = o.key()
            ok = o.failed == 0
            sample = None
            if ok and len(self.samples) < 12:
                sample = {"obligation": key, "paths": o.total, "contexts": sorted(o.contexts)[:3],
                          "at": o.ln, "derivation": (o.ok_samples[0]["detail"] if o.ok_samples else "entailed by the path constraints (Fourier-Motzkin)")}
            if not ok and getattr(o, "clean_failed", 0) > 0:
                # the obligation fails on a path that no unmodelled callee had touched before: nothing the analysis left
                # out can repair it
                self.violation(key, "%s: %s at %s (%s)" % (prop_rule, (o.samples[0]["detail"] if o.samples else "undischarged"), o.ln, o.fn),
                               {"rule": prop_rule, "kind": o.kind}, hard=True)
            if not ok and any(str(x.get("detail", "")).startswith("unmodelled callee of a panicking class") for x in o.samples):
                # a call into a class of callee that can panic is a finding in its own right, however incomplete the rest
                self.violation(key, "%s: %s at %s (%s)" % (prop_rule, o.samples[0]["detail"], o.ln, o.fn), {"rule": prop_rule, "kind": o.kind}, hard=True)
            self.oblig(ok, key,
                       "%s: %s at %s (%s)" % (prop_rule, (o.samples[0]["detail"] if o.samples else "undischarged"), o.ln, o.fn),
                       {"rule": prop_rule, "kind": o.kind, "function": o.fn, "site": o.label, "ordinal": o.ordinal,
                        "at": o.ln, "failed_paths": o.failed, "paths": o.total, "samples": o.samples}, sample)
        return n

    # ------------------------------------------------------------ checker self-test (thorough tier)
    def selftest(self, max_silent=8, slots=4):
        """run this property's check on scratch copies of /repo with (a) each seeded property-breaking change of this
        property applied (must alarm) and (b) behaviour-preserving refactors touching the property's files applied
        (must stay silent).  Results go to the evidence; they never change the exit code.  Copies live under the
        system temp directory and are removed, with their build output, when done."""
        import fnmatch
        import glob
        import re
        import shutil
        import subprocess
        import tempfile
        from concurrent.futures import ThreadPoolExecutor
        if os.environ.get("VERIF_SELFTEST_CHILD"):
            return
        props = {}
        for line in open(os.path.join(VERIF, "properties.jsonl")):
            p = json.loads(line)
            props[p["id"]] = p
        files = props.get(self.pid, {}).get("anchors", {}).get("files", [])
        jobs = []
        for d in sorted(glob.glob(os.path.join(VERIF, "seeded", self.pid + "-*"))):
            if os.path.isdir(d):
                jobs.append(("seeded", os.path.basename(d), os.path.join(d, "patch.diff"), 1))
        sil = []
        for d in sorted(glob.glob(os.path.join(VERIF, "selftest", "silent", "S*.diff"))):
            touched = re.findall(r"^\+\+\+ b/(\S+)", open(d).read(), re.M)
            if any(fnmatch.fnmatch(t, f) for t in touched for f in files):
                sil.append(("silent", os.path.basename(d)[:-5], d, 0))
        jobs += sil[:max_silent]
        # (one scratch area per check process: several checks may run their thorough tier at the same time)
        base = os.path.join(tempfile.gettempdir(), "rl2tp-verif-selftest", "%s-%d" % (self.pid, os.getpid()))
        os.makedirs(base, exist_ok=True)
        outdir = tempfile.mkdtemp(prefix="out-", dir=base)
        results = {"seeded": {"run": 0, "as_expected": 0, "skipped": 0, "unexpected": []},
                   "silent": {"run": 0, "as_expected": 0, "skipped": 0, "unexpected": []}}

        def work(slot, myjobs):
            wt = os.path.join(base, "slot%d" % slot)
            for kind, name, patch, want in myjobs:
                shutil.rmtree(wt, ignore_errors=True)
                shutil.copytree(self.repo, wt, ignore=shutil.ignore_patterns(".git", "target"))
                r = subprocess.run(["git", "apply", patch], cwd=wt, capture_output=True, text=True)
                if r.returncode != 0:
                    results[kind]["skipped"] += 1
                    continue
                env = dict(os.environ, L2TP_REPO=wt, VERIF_OUT=outdir, VERIF_SELFTEST_CHILD="1", VERIF_TIER="quick")
                p = subprocess.run([os.path.join(VERIF, "check"), self.pid, "--tier", "quick"], cwd=VERIF, env=env, capture_output=True, text=True)
                results[kind]["run"] += 1
                if p.returncode == want:
                    results[kind]["as_expected"] += 1
                else:
                    results[kind]["unexpected"].append({"case": name, "exit": p.returncode, "last": p.stdout.strip().splitlines()[-1:] })
            shutil.rmtree(wt, ignore_errors=True)
            tag = __import__("hashlib").sha256(wt.encode()).hexdigest()[:8]
            for d in glob.glob(os.path.join(VERIF, ".cache", "*%s*" % tag)):
                if os.path.isdir(d):
                    shutil.rmtree(d, ignore_errors=True)
                else:
                    try:
                        os.remove(d)
                    except OSError:
                        pass
        parts = [jobs[i::slots] for i in range(slots)]
        with ThreadPoolExecutor(max_workers=slots) as ex:
            list(ex.map(lambda t: work(*t), [(i, parts[i]) for i in range(slots) if parts[i]]))
        shutil.rmtree(outdir, ignore_errors=True)
        shutil.rmtree(base, ignore_errors=True)
        self.extra["selftest"] = results
        for kind in ("seeded", "silent"):
            for u in results[kind]["unexpected"]:
                print("SELFTEST-NOTE: %s case %s of %s gave exit %s (expected %s)" % (kind, u["case"], self.pid, u["exit"], 1 if kind == "seeded" else 0))

    # ------------------------------------------------------------ finish
    def finish(self, level, explanation=None, assumptions=None, exhaustive=None, rule=None):
        if self.pid != "C18" and self.used_contracts:
            # the proof used the Reader/Writer contract tables: discharge them for the methods it used
            import importlib
            c18 = importlib.import_module("rules.c18")
            for cfg in list(self._facts):
                c18.discharge(Sub(self, "contract | "), cfg, dict(self.used_contracts))
            self.extra["contracts_discharged"] = sorted("%s::%s%s" % (k[0], k[1], "" if z or k[1] not in ("skip_bytes", "subreader", "bytes", "write_bytes", "write_bytes_at") else " (size >= 1 at every call site)")
                                                        for k, z in self.used_contracts.items())
        if self.tier == "thorough":
            try:
                self.selftest()
            except Exception as e:      # the self-test is an extra; it must never break the verdict
                self.extra["selftest"] = {"error": repr(e)[:300]}
        # completeness of the abstract interpretation behind this verdict
        unmod, unexp = {}, {}
        for e in self.engines:
            for name, n in getattr(e, "unmodelled", {}).items():
                unmod[name] = unmod.get(name, 0) + n
            for name, n in getattr(e, "aborted", {}).items():
                unexp[name] = unexp.get(name, 0) + n
        if unmod:
            self.extra["unmodelled"] = unmod
        if unexp:
            self.extra["unexplored_paths"] = unexp
        incomplete = bool(unmod or unexp)
        known = {"known": [], "fixed": []}
        kp = os.path.join(VERIF, "known_findings.json")
        if os.path.exists(kp):
            known = json.load(open(kp))
        known_keys = {(k["property"], k["key"]): k for k in known.get("known", [])}
        new = []
        undecided = []
        for f in self.findings:
            k = known_keys.get((self.pid, f["key"]))
            if k is not None:
                print("KNOWN-FINDING: property=%s %s -- %s" % (self.pid, f["key"], k.get("what", f["summary"])))
            elif incomplete and not f.get("hard"):
                # the code uses constructs outside the modelled fragment: what could not be proven there is not a
                # refutation.  Reported, never an alarm.
                undecided.append(f)
                print("UNDECIDED property=%s %s" % (self.pid, f["key"]))
                print("  (analysis incomplete: %s)" % ", ".join(sorted(list(unmod) + list(unexp))[:4]))
            else:
                new.append(f)
        if undecided:
            self.extra["undecided"] = [{"key": f["key"], "summary": f["summary"][:300]} for f in undecided]
            self.extra["undecided_because"] = {"unmodelled_callees": unmod, "unexplored_paths": unexp}
        fdir = os.path.join(OUT, "findings", self.pid)
        os.makedirs(fdir, exist_ok=True)
        for f in new:
            safe = "".join(c if c.isalnum() else "_" for c in f["key"])[:150]
            path = os.path.join(fdir, safe + ".json")
            with open(path, "w") as fh:
                json.dump({"property": self.pid, "key": f["key"], "summary": f["summary"], "detail": f["detail"]},
                          fh, indent=1, default=str)
            print("VIOLATION property=%s replay=%s" % (self.pid, path))
            print("  %s" % f["key"])
            print("  %s" % f["summary"][:600])
        cov = {
            "obligations": self.obligations,
            "discharged": self.discharged,
            "checker_cmd": "./check %s --tier %s" % (self.pid, self.tier),
            "trusted_base": TRUSTED_BASE,
            "samples": self.samples[:12] or [{"note": "no discharged obligation to sample"}],
            "explanation": explanation or "",
            "functions_analysed": len(self.analysed["functions"]),
            "entries": self.analysed["entries"][:60],
            "notes": self.notes[:40],
            "obligation_keys": sorted(set(self.keys))[:700],
        }
        if rule:
            cov["rule"] = rule
        if exhaustive is not None:
            cov["exhaustive"] = exhaustive
        cov.update(self.extra)
        ev = {
            "property_id": self.pid,
            "tier": self.tier,
            "seed": self.seed,
            "level": level,
            "coverage": cov,
            "assumptions": assumptions or [],
            "wall_s": round(time.time() - self.t0, 2),
            "violations": len(new),
            "known_findings": [f["key"] for f in self.findings if (self.pid, f["key"]) in known_keys],
        }
        os.makedirs(os.path.join(OUT, "evidence"), exist_ok=True)
        with open(os.path.join(OUT, "evidence", self.pid + ".json"), "w") as fh:
            json.dump(ev, fh, indent=1, default=str)
        print("%s %s: %d obligations, %d discharged, %d violation(s), %d known, %.1fs" % (
            self.pid, self.tier, self.obligations, self.discharged, len(new),
            len(self.findings) - len(new), time.time() - self.t0))
        return 1 if new else 0
