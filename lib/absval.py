"""Abstract values of the lenflow interpreter.  All values are immutable by
convention; composite updates go through with_child()."""
from lin import Lin


class Abort(Exception):
    """analysis cannot continue on this path (internal limitation)"""


class V:
    __slots__ = ()


class VUnit(V):
    __slots__ = ()

    def __repr__(self):
        return "()"


UNIT = VUnit()


class VInt(V):
    """integer: exact linear expression `lin` (a fresh symbol when unknown),
    `mask` = bits that may be 1 (for non-negative values), `bits` = optional
    per-bit provenance tuple (LSB first): 0, 1, ('b', sym, k) or None."""
    __slots__ = ("ty", "lin", "mask", "bits", "taint")

    def __init__(self, ty, lin, mask=None, bits=None, taint=None):
        self.ty = ty
        self.lin = lin
        self.mask = mask
        self.bits = bits
        self.taint = taint

    def __repr__(self):
        return "Int(%r)" % (self.lin,)


class VBool(V):
    """boolean formula:
       ('const', b) | ('bit', sym, k) | ('atom', (Lin, kind)) | ('not', f) |
       ('and', f, g) | ('or', f, g) | ('sym', name)"""
    __slots__ = ("f", "taint")

    def __init__(self, f, taint=None):
        self.f = f
        self.taint = taint

    def __repr__(self):
        return "Bool%r" % (self.f,)


TRUE = VBool(("const", True))
FALSE = VBool(("const", False))


class VAdt(V):
    """struct / enum / tuple / closure-env value.
    ty: type id or None (tuple); vidx: Lin of the variant index;
    variants: dict idx -> tuple(values); base: symbolic name for lazy
    materialisation of missing variants (or None)."""
    __slots__ = ("ty", "vidx", "variants", "base")

    def __init__(self, ty, vidx, variants, base=None):
        self.ty = ty
        self.vidx = vidx
        self.variants = variants
        self.base = base

    def __repr__(self):
        return "Adt(%s,%r,%r)" % (self.ty, self.vidx, self.variants)


class VRef(V):
    """reference / pointer / box to location (cell, path)"""
    __slots__ = ("cell", "path", "mut")

    def __init__(self, cell, path=(), mut=False):
        self.cell = cell
        self.path = path
        self.mut = mut

    def __repr__(self):
        return "Ref(%r%r)" % (self.cell, self.path)


class VSlice(V):
    """&[T] / &mut [T] / &str region [start, start+len) of buffer `base`
    (a cell id of a VVec/VArr cell, or a symbolic origin name)."""
    __slots__ = ("base", "start", "len", "elem", "is_str", "mut")

    def __init__(self, base, start, length, elem=None, is_str=False, mut=False):
        self.base = base
        self.start = start
        self.len = length
        self.elem = elem
        self.is_str = is_str
        self.mut = mut

    def __repr__(self):
        return "Slice(%r,%r,%r)" % (self.base, self.start, self.len)


class VArr(V):
    """fixed-size array; elems: tuple of values or None (opaque); name: symbolic id"""
    __slots__ = ("n", "elems", "name", "src")

    def __init__(self, n, elems=None, name=None, src=None):
        self.n = n
        self.elems = elems
        self.name = name
        self.src = src        # provenance: e.g. ('slice', base, start) / ('be', VInt)

    def __repr__(self):
        return "Arr(%s,%r,%r)" % (self.n, self.elems if self.elems is None or len(self.elems) < 9 else "...", self.name)


class VVec(V):
    """heap vector / String object (lives in a cell).  len: Lin.
    segs: tuple of (length Lin, desc) describing the content, or None.
    elems: tuple of element values when small and known, else None."""
    __slots__ = ("len", "segs", "elems", "name", "elem_ty", "marks")

    def __init__(self, length, segs=None, elems=None, name=None, elem_ty=None, marks=None):
        self.len = length
        self.segs = segs
        self.elems = elems
        self.name = name
        self.elem_ty = elem_ty
        self.marks = marks

    def __repr__(self):
        return "Vec(len=%r,segs=%r,name=%r)" % (self.len, self.segs, self.name)


class VReader(V):
    """abstract conforming Reader: L = octets remaining; rid = identity;
    parent = (rid of parent, offset) for sub-readers"""
    __slots__ = ("L", "rid", "pos")

    def __init__(self, L, rid, pos=None):
        self.L = L
        self.rid = rid
        self.pos = pos      # Lin: octets consumed from this reader's origin

    def __repr__(self):
        return "Reader(%s,L=%r)" % (self.rid, self.L)


class VWriter(V):
    __slots__ = ("W", "wid")

    def __init__(self, W, wid):
        self.W = W
        self.wid = wid

    def __repr__(self):
        return "Writer(%s,W=%r)" % (self.wid, self.W)


class VClosure(V):
    __slots__ = ("key", "upvars")

    def __init__(self, key, upvars):
        self.key = key
        self.upvars = upvars

    def __repr__(self):
        return "Closure(%s)" % self.key


class VFn(V):
    __slots__ = ("func",)

    def __init__(self, func):
        self.func = func

    def __repr__(self):
        return "Fn(%s)" % self.func.get("name")


class VUnknown(V):
    __slots__ = ("ty", "name")

    def __init__(self, ty=None, name=None):
        self.ty = ty
        self.name = name

    def __repr__(self):
        return "Unknown(%s,%s)" % (self.ty, self.name)


class VIter(V):
    """finite iterator models: kind 'array' (items, pos), 'slice' (base vec cell, remaining unknown),
    'vec' (owning)"""
    __slots__ = ("kind", "items", "pos", "src", "extra")

    def __init__(self, kind, items=None, pos=0, src=None, extra=None):
        # pos: int for array iterators, Lin for slice / vec / zip iterators
        self.kind = kind
        self.items = items
        self.pos = pos
        self.src = src
        self.extra = extra

    def __repr__(self):
        return "Iter(%s,%r,%r)" % (self.kind, self.items, self.src)


class VDigest(V):
    """result of md5::compute: 16 opaque octets, identified by the input shape"""
    __slots__ = ("did", "input")

    def __init__(self, did, input_):
        self.did = did
        self.input = input_

    def __repr__(self):
        return "Digest(%s)" % (self.did,)
