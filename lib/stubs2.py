"""models of the std / md5 / phf callees (registered into stubs.STUBS)"""
import re
from lin import Lin, c_le, c_lt, c_eq, c_ne
from absval import *
from stubs import (stub, deref, get_vec, as_slice, slice_desc, mk_option, mk_result, split_variants,
                   site_info, pre)


def new_vec(eng, st, length, segs=(), elems=(), name=None, elem_ty=None):
    cell = ("heap", eng.fresh("vec"))
    st.cells[cell] = VVec(length, segs, elems, name or cell[1], elem_ty)
    return VRef(cell, (), True)


def usz(eng, lin):
    return VInt(eng.usize_ty(), lin)


# ------------------------------------------------------------------ Vec / String

@stub(r"^std::vec::Vec::<T>::(new|with_capacity)$|^std::string::String::new$|^<std::vec::Vec<T> as std::default::Default>::default$|^<std::string::String as std::default::Default>::default$")
def vec_new(eng, st, site, func, target, args, dty):
    ety = None
    if dty is not None:
        t = eng.T(dty)
        if t["k"] == "adt" and t["args"] and isinstance(t["args"][0], int):
            ety = t["args"][0]
    return [(st, new_vec(eng, st, Lin.const(0), elem_ty=ety))]


@stub(r"^std::vec::Vec::<T, A>::len$|^std::string::String::len$")
def vec_len(eng, st, site, func, target, args, dty):
    cell, v = get_vec(eng, st, args[0])
    if v is None:
        s = as_slice(eng, st, args[0])
        return [(st, usz(eng, s.len) if s is not None else eng.top_int(eng.usize_ty()))]
    return [(st, usz(eng, v.len))]


@stub(r"^std::vec::Vec::<T, A>::is_empty$|^std::string::String::is_empty$")
def vec_is_empty(eng, st, site, func, target, args, dty):
    cell, v = get_vec(eng, st, args[0])
    if v is None:
        return [(st, VBool(("sym", eng.fresh("empty"))))]
    return [(st, VBool(("atom", c_eq(v.len, Lin.const(0)))))]


@stub(r"^std::vec::Vec::<T, A>::push$")
def vec_push(eng, st, site, func, target, args, dty):
    cell, v = get_vec(eng, st, args[0])
    if v is None:
        return None
    elems = None
    if v.elems is not None and len(v.elems) < 6:
        elems = v.elems + (args[1],)
    segs = None
    if v.segs is not None and isinstance(args[1], VInt) and eng.int_info(args[1].ty) == (8, False):
        segs = v.segs + ((Lin.const(1), ("be", args[1], 1)),)
    st.cells[cell] = VVec(v.len + 1, segs, elems, v.name, v.elem_ty, v.marks)
    st.emit(("push", cell, args[1], site_info(site)))
    return [(st, UNIT)]


@stub(r"^std::vec::Vec::<T, A>::extend_from_slice$")
def vec_extend(eng, st, site, func, target, args, dty):
    cell, v = get_vec(eng, st, args[0])
    s = as_slice(eng, st, args[1])
    if v is None or s is None:
        return None
    d = slice_desc(eng, st, s)
    segs = None if v.segs is None else v.segs + ((s.len, d),)
    st.cells[cell] = VVec(v.len + s.len, segs, None, v.name, v.elem_ty, eng.marks_extend(st, v, s.len))
    return [(st, UNIT)]


@stub(r"^std::vec::Vec::<T, A>::clear$")
def vec_clear(eng, st, site, func, target, args, dty):
    cell, v = get_vec(eng, st, args[0])
    if v is None:
        return None
    st.cells[cell] = VVec(Lin.const(0), (), (), v.name, v.elem_ty)
    return [(st, UNIT)]


@stub(r"^std::vec::Vec::<T, A>::truncate$")
def vec_truncate(eng, st, site, func, target, args, dty):
    cell, v = get_vec(eng, st, args[0])
    n = args[1]
    if v is None or not isinstance(n, VInt):
        return None
    if eng.ent(st, c_le(v.len, n.lin)):
        return [(st, UNIT)]
    if eng.ent(st, c_le(n.lin, v.len)):
        segs = None
        if v.segs is not None:
            tot = Lin.const(0)
            keep = []
            for sl, sd in v.segs:
                if eng.same_lin(st, tot, n.lin):
                    break
                keep.append((sl, sd))
                tot = tot + sl
            if eng.same_lin(st, tot, n.lin):
                segs = tuple(keep)
        st.cells[cell] = VVec(n.lin, segs, None, v.name, v.elem_ty)
        return [(st, UNIT)]
    nl = eng.new_int(eng.usize_ty(), "trunc", 0)
    st.cons.append(c_le(nl.lin, v.len))
    st.cons.append(c_le(nl.lin, n.lin))
    st.cells[cell] = VVec(nl.lin, None, None, v.name, v.elem_ty)
    return [(st, UNIT)]


@stub(r"^std::string::String::as_bytes$|^std::string::String::as_str$|^std::vec::Vec::<T, A>::as_slice$")
def string_as_bytes(eng, st, site, func, target, args, dty):
    s = as_slice(eng, st, args[0])
    if s is None:
        return None
    return [(st, s)]


@stub(r"<std::vec::Vec<T, A> as std::ops::Deref(Mut)?>::deref(_mut)?$|<std::string::String as std::ops::Deref>::deref$")
def vec_deref(eng, st, site, func, target, args, dty):
    s = as_slice(eng, st, args[0])
    if s is None:
        return None
    return [(st, s)]


@stub(r"<md5::Digest as std::ops::Deref(Mut)?>::deref")
def digest_deref(eng, st, site, func, target, args, dty):
    v, loc = deref(eng, st, args[0], 2)
    cell = ("digest", v.did if isinstance(v, VDigest) else eng.fresh("dg"))
    if cell not in st.cells:
        st.cells[cell] = VArr(16, None, cell[1], ("digest", v.did if isinstance(v, VDigest) else None))
    return [(st, VRef(cell, (), False))]


# ------------------------------------------------------------------ slices

@stub(r"^core::slice::<impl \[T\]>::len$|^core::str::<impl str>::len$")
def slice_len(eng, st, site, func, target, args, dty):
    s = as_slice(eng, st, args[0])
    if s is None:
        return None
    return [(st, usz(eng, s.len))]


@stub(r"^core::slice::<impl \[T\]>::is_empty$")
def slice_is_empty(eng, st, site, func, target, args, dty):
    s = as_slice(eng, st, args[0])
    if s is None:
        return None
    return [(st, VBool(("atom", c_eq(s.len, Lin.const(0)))))]


def elem_ref(eng, st, s, idx):
    """reference to element idx (Lin) of region s"""
    pos = s.start + idx
    b = s.base
    if not isinstance(b, tuple) or b[0] in ("heap", "obj"):
        tgt = st.cells.get(b)
        if isinstance(tgt, VVec):
            if pos.is_const():
                return VRef(b, (("e", pos.c),), s.mut)
            return VRef(b, (("ei", pos),), s.mut)
    if isinstance(b, tuple) and b[0] == "loc":
        if pos.is_const():
            return VRef(b[1], b[2] + (("e", pos.c),), s.mut)
        return VRef(b[1], b[2] + (("ei", pos),), s.mut)
    cell = ("elem", b, pos.key())
    if cell not in st.cells:
        if s.elem in (None, eng.u8_ty()):
            if not hasattr(eng, "byte_syms"):
                eng.byte_syms = {}
            eng.byte_syms["byte(%r@%r)" % (b, pos)] = (b, pos)
        st.cells[cell] = eng.named_int(eng.u8_ty(), "byte(%r@%r)" % (b, pos), bits_sym=True) if s.elem in (None, eng.u8_ty()) else VUnknown(s.elem, "elem(%r@%r)" % (b, pos))
    return VRef(cell, (), s.mut)


def range_of(eng, st, idx, slen):
    """(from Lin, to Lin) for Range/RangeFrom/RangeTo/RangeFull values; None if idx is a plain index"""
    if isinstance(idx, VAdt):
        nm = eng.adt_name(idx) or ""
        fs = eng.variant_fields(st, idx, 0) or ()
        if nm.endswith("ops::RangeTo") and len(fs) == 1 and isinstance(fs[0], VInt):
            return (Lin.const(0), fs[0].lin)
        if nm.endswith("ops::RangeFrom") and len(fs) == 1 and isinstance(fs[0], VInt):
            return (fs[0].lin, slen)
        if nm.endswith("ops::Range") and len(fs) == 2 and isinstance(fs[0], VInt) and isinstance(fs[1], VInt):
            return (fs[0].lin, fs[1].lin)
        if nm.endswith("ops::RangeFull"):
            return (Lin.const(0), slen)
        if nm.endswith("ops::RangeInclusive") or nm.endswith("ops::RangeToInclusive"):
            return "unsupported"
    return None


def index_common(eng, st, site, func, args, dty, checked, kind, unsafe=False):
    """shared by Index/IndexMut (panics when out of range), get (Option), get_unchecked (unsafe pre)"""
    frame, bb, t = site
    s = as_slice(eng, st, args[0])
    if s is None:
        return None
    idx = args[1]
    label = eng.callee_label(func)
    r = range_of(eng, st, idx, s.len)
    if r == "unsupported":
        return None
    if r is None and isinstance(idx, VInt) and not idx.lin.is_const() and s.len.is_const() and s.len.c <= 64 \
            and isinstance(s.base, tuple) and s.base and s.base[0] == "loc" and s.start.is_const() and not getattr(s, "mut", False):
        # a small table indexed by a computed value: one case per entry (and the out-of-range case)
        tgt = eng.load(st, s.base[1], s.base[2])
        if isinstance(tgt, VArr) and tgt.elems is not None:
            out = []
            for i in range(s.len.c):
                s2 = st.fork()
                if eng.add(s2, c_eq(idx.lin, Lin.const(i))):
                    ref = elem_ref(eng, s2, s, Lin.const(i))
                    out.append((s2, mk_option(eng, dty, True, ref) if kind == "get" else ref))
            s_no = st.fork()
            if eng.add(s_no, c_le(s.len, idx.lin)):
                if kind == "get":
                    out.append((s_no, mk_option(eng, dty, False)))
                else:
                    eng.oblig("unsafe-pre" if unsafe else "bounds", frame, bb, label, False, s_no, "index %r not proven < length %r" % (idx.lin, s.len), t.get("ln"))
            elif kind != "get":
                eng.oblig("unsafe-pre" if unsafe else "bounds", frame, bb, label, True, st, None, t.get("ln"))
            return out
    if r is None:
        if not isinstance(idx, VInt):
            return None
        cond = [c_lt(idx.lin, s.len)]
        mk = lambda s2: elem_ref(eng, s2, s, idx.lin)
        what = "index %r not proven < length %r" % (idx.lin, s.len)
    else:
        lo, hi = r
        cond = [c_le(lo, hi), c_le(hi, s.len)]
        mk = lambda s2: VSlice(s.base, s.start + lo, hi - lo, s.elem, s.is_str, s.mut)
        what = "range [%r, %r) not proven inside length %r" % (lo, hi, s.len)
    if kind == "get":
        out = []
        s_ok = st.fork()
        good = all(eng.add(s_ok, c) for c in cond)
        if good:
            out.append((s_ok, mk_option(eng, dty, True, mk(s_ok))))
        # None side: some condition fails
        for i, c in enumerate(cond):
            s_no = st.fork()
            ok = all(eng.add(s_no, cc) for cc in cond[:i])
            if ok:
                from lin import negate
                for alt in negate(c):
                    s3 = s_no.fork()
                    if eng.add(s3, alt):
                        out.append((s3, mk_option(eng, dty, False)))
        return out
    ok = all(eng.ent(st, c) for c in cond)
    eng.oblig("unsafe-pre" if unsafe else "bounds", frame, bb, label, ok, st, None if ok else what, t.get("ln"))
    if not ok:
        for c in cond:
            if not eng.add(st, c):
                return []
    if r is not None and (getattr(s, "is_str", False) or "for str>" in (func.get("resolved") or func)["name"]):
        # slicing a str panics unless both ends are char boundaries; only the ends of the string are known to be
        lo, hi = r
        okb = all(eng.ent(st, c_eq(x, Lin.const(0))) or eng.ent(st, c_eq(x, s.len)) for x in (lo, hi))
        eng.oblig("bounds", frame, bb, label + " (char boundary)", okb, st,
                  None if okb else "str range [%r, %r): an end that is neither 0 nor the length is not known to be a char boundary" % (lo, hi), t.get("ln"))
    return [(st, mk(st))]


@stub(r"::index::<impl std::ops::Index<I> for \[T\]>::index$|<std::vec::Vec<T, A> as std::ops::Index<I>>::index$|"
      r"std::array::<impl std::ops::Index<I> for \[T; N\]>::index$|<impl std::ops::IndexMut<I> for \[T\]>::index_mut$|"
      r"<std::vec::Vec<T, A> as std::ops::IndexMut<I>>::index_mut$|std::array::<impl std::ops::IndexMut<I> for \[T; N\]>::index_mut$|"
      r"<impl std::ops::Index<I> for str>::index$")
def index_stub(eng, st, site, func, target, args, dty):
    return index_common(eng, st, site, func, args, dty, True, "index")


@stub(r"^core::slice::<impl \[T\]>::get$|^core::slice::<impl \[T\]>::get_mut$")
def slice_get(eng, st, site, func, target, args, dty):
    return index_common(eng, st, site, func, args, dty, True, "get")


@stub(r"^core::slice::<impl \[T\]>::get_unchecked(_mut)?$")
def slice_get_unchecked(eng, st, site, func, target, args, dty):
    return index_common(eng, st, site, func, args, dty, False, "index", unsafe=True)


@stub(r"^core::slice::<impl \[T\]>::split_at(_mut)?$|^core::str::<impl str>::split_at$")
def slice_split_at(eng, st, site, func, target, args, dty):
    frame, bb, t = site
    s = as_slice(eng, st, args[0])
    mid = args[1]
    if s is None or not isinstance(mid, VInt):
        return None
    c = c_le(mid.lin, s.len)
    ok = eng.ent(st, c)
    eng.oblig("bounds", frame, bb, eng.callee_label(func), ok, st, None if ok else "split point %r not proven <= length %r" % (mid.lin, s.len), t.get("ln"))
    if not ok and not eng.add(st, c):
        return []
    a_ = VSlice(s.base, s.start, mid.lin, s.elem, s.is_str, s.mut)
    b_ = VSlice(s.base, s.start + mid.lin, s.len - mid.lin, s.elem, s.is_str, s.mut)
    return [(st, VAdt(dty, Lin.const(0), {0: (a_, b_)}))]


@stub(r"^core::slice::<impl \[T\]>::first$")
def slice_first(eng, st, site, func, target, args, dty):
    s = as_slice(eng, st, args[0])
    if s is None:
        return None
    out = []
    st.emit(("first", s.base, site_info(site)))
    s0 = st.fork()
    if eng.add(s0, c_eq(s.len, Lin.const(0))):
        out.append((s0, mk_option(eng, dty, False)))
    if eng.add(st, c_le(Lin.const(1), s.len)):
        out.append((st, mk_option(eng, dty, True, elem_ref(eng, st, s, Lin.const(0)))))
    return out


@stub(r"^core::slice::<impl \[T\]>::iter(_mut)?$")
def slice_iter(eng, st, site, func, target, args, dty):
    s = as_slice(eng, st, args[0])
    if s is None:
        return None
    return [(st, VIter("slice", s.len, Lin.const(0), s))]


@stub(r"^core::slice::<impl \[T\]>::as_(mut_)?ptr$")
def slice_as_ptr(eng, st, site, func, target, args, dty):
    s = as_slice(eng, st, args[0])
    if s is None:
        return None
    return [(st, s)]


@stub(r"^std::ptr::copy_nonoverlapping$|^core::intrinsics::copy_nonoverlapping$")
def copy_nonoverlapping(eng, st, site, func, target, args, dty):
    frame, bb, t = site
    src, dst, n = args
    label = eng.callee_label(func)
    if not (isinstance(src, VSlice) and isinstance(dst, VSlice) and isinstance(n, VInt)):
        eng.oblig("unsafe-pre", frame, bb, label, False, st, "copy_nonoverlapping on untracked pointers", t.get("ln"))
        return [(st, UNIT)]
    if not pre(eng, st, site, "unsafe-pre", label, c_le(n.lin, src.len),
               "copy of %r octets from a source region of %r" % (n.lin, src.len)):
        return []
    if not pre(eng, st, site, "unsafe-pre", label, c_le(n.lin, dst.len),
               "copy of %r octets into a destination region of %r" % (n.lin, dst.len)):
        return []
    distinct = src.base != dst.base
    eng.oblig("unsafe-pre", frame, bb, label + " (disjoint)", distinct, st,
              None if distinct else "source and destination in the same buffer", t.get("ln"))
    st.emit(("copy", dst.base, dst.start, n, slice_desc(eng, st, VSlice(src.base, src.start, n.lin, src.elem)), site_info(site)))
    tgt = st.cells.get(dst.base)
    if isinstance(tgt, VVec):
        from stubs import patch_segs
        d = slice_desc(eng, st, VSlice(src.base, src.start, n.lin, src.elem))
        st.cells[dst.base] = VVec(tgt.len, patch_segs(eng, st, tgt.segs, dst.start, n.lin, d), None, tgt.name, tgt.elem_ty, tgt.marks)
    return [(st, UNIT)]


def array_overwrite(eng, st, dst, src, d):
    """a fixed-size array (a local or a field) overwritten through a slice of it: whole array -> the same value a
    `try_into()` of the source slice gives; part of it -> the elements concerned when the bounds are constants,
    otherwise an array of unknown content"""
    arr = eng.load(st, dst.base[1], dst.base[2])
    if not isinstance(arr, VArr):
        return
    whole = dst.start.is_const() and dst.start.c == 0 and dst.len.is_const() and dst.len.c == arr.n
    if whole:
        nv = VArr(arr.n, None, eng.fresh("arr"), ("slice", d))
        tgtv = st.cells.get(src.base) if not isinstance(src.base, tuple) or src.base[0] in ("heap", "obj") else None
        if isinstance(tgtv, VVec) and tgtv.segs is None and tgtv.name and arr.n <= 8 and src.start.is_const():
            es = []
            for i in range(arr.n):
                r = elem_ref(eng, st, src, Lin.const(i))
                es.append(eng.load(st, r.cell, r.path))
            if all(isinstance(e, VInt) for e in es):
                nv = VArr(arr.n, tuple(es), nv.name, None)
    elif arr.elems is not None and dst.start.is_const() and dst.len.is_const() and dst.len.c <= 16:
        es = list(arr.elems)
        for i in range(dst.len.c):
            r = elem_ref(eng, st, src, Lin.const(i))
            es[dst.start.c + i] = eng.load(st, r.cell, r.path)
        nv = VArr(arr.n, tuple(es), arr.name, None)
    else:
        nv = VArr(arr.n, None, eng.fresh("arr"), None)
    eng.store(st, dst.base[1], dst.base[2], nv)


@stub(r"^core::slice::<impl \[T\]>::copy_from_slice$|^core::slice::<impl \[T\]>::clone_from_slice$")
def copy_from_slice(eng, st, site, func, target, args, dty):
    frame, bb, t = site
    dst = as_slice(eng, st, args[0])
    src = as_slice(eng, st, args[1])
    if dst is None or src is None:
        return None
    c = c_eq(dst.len, src.len)
    ok = eng.ent(st, c)
    eng.oblig("bounds", frame, bb, eng.callee_label(func), ok, st, None if ok else "copy_from_slice lengths %r / %r not proven equal" % (dst.len, src.len), t.get("ln"))
    if not ok and not eng.add(st, c):
        return []
    d = slice_desc(eng, st, src)
    st.emit(("copy", dst.base, dst.start, VInt(eng.usize_ty(), src.len), d, site_info(site)))
    tgt = st.cells.get(dst.base) if not (isinstance(dst.base, tuple) and dst.base and dst.base[0] == "loc") else None
    if isinstance(tgt, VVec):
        from stubs import patch_segs
        st.cells[dst.base] = VVec(tgt.len, patch_segs(eng, st, tgt.segs, dst.start, src.len, d), None, tgt.name, tgt.elem_ty, tgt.marks)
    elif isinstance(dst.base, tuple) and dst.base and dst.base[0] == "loc":
        array_overwrite(eng, st, dst, src, d)
    return [(st, UNIT)]


# ------------------------------------------------------------------ Option / Result

@stub(r"^std::option::Option::<T>::ok_or$")
def option_ok_or(eng, st, site, func, target, args, dty):
    out = []
    for s2, vi, fs in split_variants(eng, st, args[0]):
        if vi == 1:
            out.append((s2, mk_result(eng, dty, True, fs[0] if fs else VUnknown(None, eng.fresh("some")))))
        else:
            out.append((s2, mk_result(eng, dty, False, args[1])))
    return out


@stub(r"^std::option::Option::<T>::map$")
def option_map(eng, st, site, func, target, args, dty):
    out = []
    for s2, vi, fs in split_variants(eng, st, args[0]):
        if vi == 1:
            x = fs[0] if fs else VUnknown(None, eng.fresh("some"))
            for s3, r in eng.call_closure(s2, site, args[1], [x]):
                out.append((s3, mk_option(eng, dty, True, r)))
        else:
            out.append((s2, mk_option(eng, dty, False)))
    return out


@stub(r"^std::option::Option::<T>::(as_ref|as_mut)$")
def option_as_ref(eng, st, site, func, target, args, dty):
    a = args[0]
    if not isinstance(a, VRef):
        return None
    v = eng.load(st, a.cell, a.path)
    if isinstance(v, VUnknown) and v.ty is not None:
        v = eng.symval(st, v.ty, v.name or eng.fresh("u"))
        eng.store(st, a.cell, a.path, v)
    out = []
    for s2, vi, fs in split_variants(eng, st, v):
        if vi == 1:
            out.append((s2, mk_option(eng, dty, True, VRef(a.cell, a.path + (("f", 1, 0),), a.mut))))
        else:
            out.append((s2, mk_option(eng, dty, False)))
    return out


@stub(r"^std::option::Option::<T>::(is_some|is_none)$")
def option_is_some(eng, st, site, func, target, args, dty):
    v, loc = deref(eng, st, args[0], 2)
    want_some = target["name"].endswith("is_some")
    if isinstance(v, VUnknown) and v.ty is not None and loc is not None:
        v = eng.symval(st, v.ty, v.name or eng.fresh("u"))
        eng.store(st, loc[0], loc[1], v)
    if isinstance(v, VAdt):
        if v.vidx.is_const():
            return [(st, TRUE if (v.vidx.c == 1) == want_some else FALSE)]
        f = ("atom", c_eq(v.vidx, Lin.const(1)))
        return [(st, VBool(f if want_some else ("not", f)))]
    return [(st, VBool(("sym", eng.fresh("is_some"))))]


@stub(r"^std::option::Option::<T>::unwrap_or$|^std::result::Result::<T, E>::unwrap_or$")
def unwrap_or(eng, st, site, func, target, args, dty):
    is_opt = "Option" in target["name"]
    good = 1 if is_opt else 0
    out = []
    for s2, vi, fs in split_variants(eng, st, args[0]):
        if vi == good:
            out.append((s2, fs[0] if fs else VUnknown(dty, eng.fresh("some"))))
        else:
            out.append((s2, args[1]))
    return out


@stub(r"^std::option::Option::<T>::unwrap_or_default$")
def option_unwrap_or_default(eng, st, site, func, target, args, dty):
    out = []
    for s2, vi, fs in split_variants(eng, st, args[0]):
        if vi == 1:
            out.append((s2, fs[0]))
        else:
            t = eng.T(dty) if dty is not None else {"k": "?"}
            if t["k"] == "adt" and t["name"] in ("std::vec::Vec", "std::string::String"):
                out.append((s2, new_vec(eng, s2, Lin.const(0))))
            elif t["k"] == "int":
                out.append((s2, eng.const_int(dty, 0)))
            else:
                out.append((s2, VUnknown(dty, eng.fresh("default"))))
    return out


@stub(r"^std::result::Result::<T, E>::map_err$")
def result_map_err(eng, st, site, func, target, args, dty):
    out = []
    for s2, vi, fs in split_variants(eng, st, args[0]):
        x = fs[0] if fs else VUnknown(None, eng.fresh("payload"))
        if vi == 1:
            for s3, r in eng.call_closure(s2, site, args[1], [x]):
                out.append((s3, mk_result(eng, dty, False, r)))
        else:
            out.append((s2, mk_result(eng, dty, True, x)))
    return out


@stub(r"^std::result::Result::<T, E>::(is_err|is_ok)$")
def result_is_err(eng, st, site, func, target, args, dty):
    v, loc = deref(eng, st, args[0], 2)
    want_err = target["name"].endswith("is_err")
    if isinstance(v, VAdt):
        if v.vidx.is_const():
            return [(st, TRUE if (v.vidx.c == 1) == want_err else FALSE)]
        f = ("atom", c_eq(v.vidx, Lin.const(1)))
        return [(st, VBool(f if want_err else ("not", f)))]
    return [(st, VBool(("sym", eng.fresh("is_err"))))]


@stub(r"^std::result::Result::<T, E>::(err|ok)$")
def result_err_ok(eng, st, site, func, target, args, dty):
    want = 1 if target["name"].endswith("::err") else 0
    out = []
    for s2, vi, fs in split_variants(eng, st, args[0]):
        if vi == want:
            out.append((s2, mk_option(eng, dty, True, fs[0] if fs else VUnknown(None, eng.fresh("p")))))
        else:
            out.append((s2, mk_option(eng, dty, False)))
    return out


@stub(r"^std::result::Result::<T, E>::(unwrap|expect|unwrap_unchecked)$|^std::option::Option::<T>::(unwrap|expect|unwrap_unchecked)$")
def unwrap_stub(eng, st, site, func, target, args, dty):
    frame, bb, t = site
    is_opt = "Option" in target["name"]
    good = 1 if is_opt else 0
    unchecked = target["name"].endswith("unchecked")
    label = eng.callee_label(func)
    out = []
    alts = split_variants(eng, st, args[0])
    bad = [a for a in alts if a[1] != good]
    ok = not bad
    eng.oblig("unsafe-pre" if unchecked else "unwrap", frame, bb, label, ok, bad[0][0] if bad else st,
              None if ok else "value not proven to be %s" % ("Some" if is_opt else "Ok"), t.get("ln"))
    for s2, vi, fs in alts:
        if vi == good:
            out.append((s2, fs[0] if fs else VUnknown(dty, eng.fresh("unwrapped"))))
        elif not unchecked and "panic_sink" in eng.hooks:
            # unwrap/expect of the other variant is a refusal (panic) like an explicit assert
            eng.hooks["panic_sink"](frame, s2, bb, target["name"].rsplit("::", 1)[1] + " of " + ("None" if is_opt else "Err"))
    return out


@stub(r"std::ops::Try>::branch$|^std::ops::Try::branch$")
def try_branch(eng, st, site, func, target, args, dty):
    is_opt = "Option" in target["name"]
    out = []
    for s2, vi, fs in split_variants(eng, st, args[0]):
        x = fs[0] if fs else (UNIT if (is_opt and vi == 0) else VUnknown(None, eng.fresh("payload")))
        cont = (vi == 1) if is_opt else (vi == 0)
        if cont:
            out.append((s2, VAdt(dty if dty is not None else "std::ops::ControlFlow", Lin.const(0), {0: (x,)})))
        else:
            resid = mk_option(eng, None, False) if is_opt else mk_result(eng, None, False, x)
            out.append((s2, VAdt(dty if dty is not None else "std::ops::ControlFlow", Lin.const(1), {1: (resid,)})))
    return out


@stub(r"std::ops::FromResidual<.*>>::from_residual$|^std::ops::FromResidual::from_residual$")
def from_residual(eng, st, site, func, target, args, dty):
    r = args[0]
    if isinstance(r, VAdt) and r.vidx.is_const():
        fs = r.variants.get(r.vidx.c, ())
        if r.vidx.c == 1 and fs:
            return [(st, mk_result(eng, dty, False, fs[0]))]
        if r.vidx.c == 0:
            return [(st, mk_option(eng, dty, False))]
    return [(st, VUnknown(dty, eng.fresh("resid")))]


# ------------------------------------------------------------------ conversions

def find_impl_fn(eng, trait, self_adt_name, item, arg_pred=None):
    for f in eng.fx.raw["fns"]:
        if f.get("trait") == trait and f.get("item") == item and "self_ty" in f:
            t = eng.T(f["self_ty"])
            if t["k"] == "adt" and t["name"] == self_adt_name:
                if arg_pred is None or arg_pred(f):
                    return f
            if t["k"] != "adt" and self_adt_name == eng.fx.ty_str(f["self_ty"]):
                if arg_pred is None or arg_pred(f):
                    return f
    return None


@stub(r"std::convert::TryInto<U>>::try_into$|^std::convert::TryInto::try_into$|^std::convert::TryFrom::try_from$")
def try_into(eng, st, site, func, target, args, dty):
    ga = [a for a in target.get("args", func.get("args", [])) if isinstance(a, int)]
    if len(ga) < 2:
        ga = [a for a in func.get("args", []) if isinstance(a, int)]
    if len(ga) < 2:
        return None
    T, U = eng.T(ga[0]), eng.T(ga[1])
    if target["name"].endswith("try_from"):
        T, U = U, T
        ga = [ga[1], ga[0]]
    if U["k"] == "array":
        s = as_slice(eng, st, args[0])
        if s is None:
            return None
        n = U["len"]
        out = []
        s_ok = st.fork()
        if eng.add(s_ok, c_eq(s.len, Lin.const(n))):
            eng.counter += 1
            arr = VArr(n, None, eng.fresh("arr"), ("slice", slice_desc(eng, s_ok, s)))
            tgtv = s_ok.cells.get(s.base) if not isinstance(s.base, tuple) or s.base[0] in ("heap", "obj") else None
            if isinstance(tgtv, VVec) and tgtv.segs is None and tgtv.name and n <= 8 and s.start.is_const():
                # a few octets of an opaque buffer: the same element symbols that indexing the buffer gives
                es = []
                for i in range(n):
                    r = elem_ref(eng, s_ok, s, Lin.const(i))
                    es.append(eng.load(s_ok, r.cell, r.path))
                if all(isinstance(e, VInt) for e in es):
                    arr = VArr(n, tuple(es), arr.name, None)
            # &[T] -> &[T;N] keeps a reference; -> [T;N] copies
            out.append((s_ok, mk_result(eng, dty, True, arr)))
        s_ne = st
        if eng.add(s_ne, c_ne(s.len, Lin.const(n))):
            out.append((s_ne, mk_result(eng, dty, False, VUnknown(None, eng.fresh("tryfromslice")))))
        return out
    if U["k"] == "adt" and U["key"] in eng.fx.adts:
        f = find_impl_fn(eng, "std::convert::TryFrom", U["name"], "try_from")
        if f is not None:
            return eng.call_local(st, site, f["key"], args)
    if U["k"] == "int" and T["k"] == "int":
        lo, hi = eng.int_range(ga[1])
        v = args[0]
        if isinstance(v, VInt):
            out = []
            s_ok = st.fork()
            if eng.add(s_ok, c_le(Lin.const(lo), v.lin)) and eng.add(s_ok, c_le(v.lin, Lin.const(hi))):
                w_, sg_ = eng.int_info(ga[1])
                bits_ = eng.bits_of(v)
                nb_ = None
                if bits_ is not None and not sg_ and not eng.int_info(v.ty)[1]:
                    nb_ = tuple(bits_[:w_]) + (0,) * max(0, w_ - len(bits_))
                out.append((s_ok, mk_result(eng, dty, True, VInt(ga[1], v.lin, v.mask, nb_, v.taint))))
            for c in (c_lt(v.lin, Lin.const(lo)), c_lt(Lin.const(hi), v.lin)):
                s3 = st.fork()
                if eng.add(s3, c):
                    out.append((s3, mk_result(eng, dty, False, VUnknown(None, eng.fresh("tryfromint")))))
            return out
    return None


@stub(r"std::convert::Into<U>>::into$|^std::convert::Into::into$|^std::convert::From::from$|<T as std::convert::From<T>>::from$")
def into_stub(eng, st, site, func, target, args, dty):
    ga = [a for a in target.get("args", func.get("args", [])) if isinstance(a, int)]
    if len(ga) < 2:
        # resolved to a non-generic impl (e.g. `impl From<u8> for u16`): the trait-level call carries [Self, T]
        ga = [a for a in func.get("args", []) if isinstance(a, int)]
    if target["name"].endswith("<T as std::convert::From<T>>::from"):
        return [(st, args[0])]
    if len(ga) < 2:
        return None
    if target["name"].endswith("::from"):
        ga = [ga[1], ga[0]]
    if ga[0] == ga[1]:
        return [(st, args[0])]
    T, U = eng.T(ga[0]), eng.T(ga[1])
    uname = U["name"] if U["k"] == "adt" else eng.fx.ty_str(ga[1])
    tstr = eng.fx.ty_str(ga[0])

    def pred(f):
        # impl From<T> for U: first argument type of `from` is T
        return f["body"]["locals"][1] == ga[0]
    f = find_impl_fn(eng, "std::convert::From", uname, "from", pred)
    if f is not None:
        return eng.call_local(st, site, f["key"], args)
    if T["k"] == "int" and U["k"] == "int" and isinstance(args[0], VInt):
        return [(st, eng.cast(st, site[0], site[1], "IntToInt", args[0], ga[1]))]
    return None


@stub(r"^std::borrow::Borrow::borrow$|<T as std::borrow::Borrow<T>>::borrow$|::borrow::<impl std::borrow::Borrow<\[T\]> for std::vec::Vec<T, A>>::borrow$|"
      r"^std::convert::AsRef::as_ref$|^std::borrow::BorrowMut::borrow_mut$")
def borrow_stub(eng, st, site, func, target, args, dty):
    s = as_slice(eng, st, args[0])
    if s is None:
        return None
    return [(st, s)]


@stub(r"std::borrow::ToOwned for \[T\]>::to_owned$|std::borrow::ToOwned for str>::to_owned$|^std::borrow::ToOwned::to_owned$|"
      r"^(core|std|alloc)::slice::<impl \[T\]>::to_vec$|^std::vec::Vec::<T>::from$|<std::vec::Vec<T> as std::convert::From<&\[T\]>>::from$|^std::string::String::from_utf8_unchecked$|::to_string$")
def to_owned_stub(eng, st, site, func, target, args, dty):
    a0 = args[0]
    if isinstance(a0, VRef):
        a0 = eng.load(st, a0.cell, a0.path)
    if isinstance(a0, VInt) and target["name"].endswith("to_string"):
        import stubs3
        return stubs3.int_to_string(eng, st, site, func, target, args, dty)
    s = as_slice(eng, st, args[0])
    if s is None:
        return None
    d = slice_desc(eng, st, s)
    return [(st, new_vec(eng, st, s.len, ((s.len, d),), None, None, s.elem))]


@stub(r"^core::num::<impl u(8|16|32|64|128|size)>::from_be_bytes$")
def from_be_bytes(eng, st, site, func, target, args, dty):
    a = args[0]
    if isinstance(a, VArr):
        if a.src is not None and a.src[0] == "be" and isinstance(a.src[1], VInt):
            return [(st, a.src[1])]
        if a.src is not None and a.src[0] == "slice" and isinstance(a.src[1], tuple) and a.src[1] and a.src[1][0] == "be" \
                and isinstance(a.src[1][1], VInt) and a.src[1][2] == a.n:
            return [(st, a.src[1][1])]          # from_be_bytes(to_be_bytes(v)) = v
        if a.src is not None and a.src[0] == "slice" and isinstance(a.src[1], tuple) and a.src[1] and a.src[1][0] == "const" and len(a.src[1][1]) == a.n:
            v = 0
            for c_ in a.src[1][1]:
                v = v * 256 + c_
            return [(st, eng.const_int(dty, v))]
        if a.src is not None and a.src[0] == "slice" and isinstance(a.src[1], tuple) and a.src[1] and a.src[1][0] == "elems" \
                and len(a.src[1][1]) == a.n and all(isinstance(e, VInt) for e in a.src[1][1]):
            lin = Lin.const(0)
            for e in a.src[1][1]:
                lin = lin.scale(256) + e.lin
            return [(st, VInt(dty, lin))]
        if a.src is not None:
            nm = "be(%r)" % (a.src[1] if a.src[0] == "slice" else a.src,)
            return [(st, eng.named_int(dty, nm, bits_sym=True))]
        if a.elems is not None and all(isinstance(e, VInt) for e in a.elems):
            lin = Lin.const(0)
            for e in a.elems:
                lin = lin.scale(256) + e.lin
            return [(st, VInt(dty, lin))]
    return [(st, eng.top_int(dty))]


@stub(r"^core::num::<impl u(8|16|32|64|128|size)>::to_be_bytes$")
def to_be_bytes(eng, st, site, func, target, args, dty):
    n = eng.T(dty)["len"] if dty is not None and eng.T(dty)["k"] == "array" else None
    return [(st, VArr(n, None, eng.fresh("be"), ("be", args[0], n)))]


@stub(r"^std::str::from_utf8$|^core::str::from_utf8$|^core::str::converts::from_utf8$")
def from_utf8(eng, st, site, func, target, args, dty):
    s = as_slice(eng, st, args[0])
    if s is None:
        return None
    s_err = st.fork()
    st.emit(("utf8", slice_desc(eng, st, s), True, site_info(site)))
    s_err.emit(("utf8", slice_desc(eng, s_err, s), False, site_info(site)))
    ok = VSlice(s.base, s.start, s.len, s.elem, True, False)
    return [(st, mk_result(eng, dty, True, ok)), (s_err, mk_result(eng, dty, False, VUnknown(None, eng.fresh("utf8err"))))]


@stub(r"^md5::compute$")
def md5_compute(eng, st, site, func, target, args, dty):
    s = as_slice(eng, st, args[0])
    d = slice_desc(eng, st, s) if s is not None else ("?",)
    eng.counter += 1
    did = "md5#%d" % st.ntrace
    st.emit(("md5", did, d, site_info(site)))
    hook = eng.hooks.get("md5")
    if hook and not eng.mute:
        hook(st, site, did, d)
    return [(st, VDigest(did, d))]


@stub(r"^phf::Map::<K, V>::get$|^phf::map::Map::<K, V>::get$")
def phf_get(eng, st, site, func, target, args, dty):
    key, _ = deref(eng, st, args[1], 2)
    static = None
    m = args[0]
    for _ in range(3):
        if isinstance(m, VRef):
            if isinstance(m.cell, tuple) and m.cell and m.cell[0] == "static":
                static = m.cell[1]
                break
            m = eng.load(st, m.cell, m.path)
    out = []
    s_none = st.fork()
    s_none.emit(("phf_get", key, False, site_info(site), static))
    out.append((s_none, mk_option(eng, dty, False)))
    # Some(&V): V's type from the Option<&V> return type
    vty = None
    if dty is not None:
        t = eng.T(dty)
        if t["k"] == "adt" and t["args"]:
            rt = eng.T(t["args"][0])
            if rt["k"] == "ref":
                vty = rt["to"]
    cell = ("phf", eng.fresh("v"))
    st.cells[cell] = eng.symval(st, vty, "phf[%s](%r)" % (static, key.lin if isinstance(key, VInt) else key,)) if vty is not None else VUnknown(None, cell[1])
    st.emit(("phf_get", key, True, site_info(site), static))
    out.append((st, mk_option(eng, dty, True, VRef(cell, (), False))))
    return out


@stub(r"^std::ops::RangeInclusive::<Idx>::contains$|^std::ops::Range::<Idx>::contains$")
def range_contains(eng, st, site, func, target, args, dty):
    r, _ = deref(eng, st, args[0], 2)
    x, _ = deref(eng, st, args[1], 2)
    if isinstance(r, VAdt) and isinstance(x, VInt):
        fs = eng.variant_fields(st, r, 0)
        if fs and len(fs) >= 2 and isinstance(fs[0], VInt) and isinstance(fs[1], VInt):
            incl = "Inclusive" in target["name"]
            lo = ("atom", c_le(fs[0].lin, x.lin))
            hi = ("atom", c_le(x.lin, fs[1].lin) if incl else c_lt(x.lin, fs[1].lin))
            return [(st, VBool(("and", lo, hi)))]
    return [(st, VBool(("sym", eng.fresh("contains"))))]


@stub(r"^std::ops::RangeInclusive::<Idx>::new$")
def range_incl_new(eng, st, site, func, target, args, dty):
    return [(st, VAdt(dty, Lin.const(0), {0: (args[0], args[1], FALSE)}))]


# ------------------------------------------------------------------ mem::take / replace / swap

@stub(r"^std::mem::(take|replace|swap)$|^core::mem::(take|replace|swap)$")
def mem_ops(eng, st, site, func, target, args, dty):
    op = target["name"].rsplit("::", 1)[1]
    a = args[0]
    if not isinstance(a, VRef):
        return None
    old = eng.load(st, a.cell, a.path)
    if op == "replace":
        eng.store(st, a.cell, a.path, args[1])
        return [(st, old)]
    if op == "swap":
        b = args[1]
        if not isinstance(b, VRef):
            return None
        ob = eng.load(st, b.cell, b.path)
        eng.store(st, a.cell, a.path, ob)
        eng.store(st, b.cell, b.path, old)
        return [(st, UNIT)]
    # take: leave Default::default() behind
    if isinstance(old, VSlice):
        new = VSlice(("const", ()), Lin.const(0), Lin.const(0), old.elem, old.is_str, old.mut)
    elif isinstance(old, VRef) and isinstance(st.cells.get(old.cell), VVec):
        new = new_vec(eng, st, Lin.const(0), elem_ty=st.cells[old.cell].elem_ty)
    elif isinstance(old, VInt):
        new = eng.const_int(old.ty, 0)
    elif isinstance(old, VBool):
        new = FALSE
    elif isinstance(old, VAdt) and eng.adt_name(old) == "std::option::Option":
        new = mk_option(eng, old.ty, False)
    else:
        return None
    eng.store(st, a.cell, a.path, new)
    return [(st, old)]


# ------------------------------------------------------------------ Box (vec! expansion)

@stub(r"^std::boxed::Box::<T>::new_uninit$|^std::boxed::Box::<T>::new$")
def box_new(eng, st, site, func, target, args, dty):
    cell = ("box", eng.fresh("b"))
    st.cells[cell] = args[0] if args else VUnknown(None, eng.fresh("uninit"))
    return [(st, VRef(cell, (), True))]


def find_arr(v, depth=0):
    if isinstance(v, VArr):
        return v
    if depth > 6:
        return None
    if isinstance(v, VAdt):
        for fs in v.variants.values():
            for f in fs:
                r = find_arr(f, depth + 1)
                if r is not None:
                    return r
    return None


@stub(r"^std::boxed::box_assume_init_into_vec_unsafe$|^std::slice::<impl \[T\]>::into_vec$")
def box_into_vec(eng, st, site, func, target, args, dty):
    b = args[0]
    arr = None
    if isinstance(b, VRef):
        arr = find_arr(eng.load(st, b.cell, b.path))
    if arr is not None and arr.elems is not None:
        return [(st, new_vec(eng, st, Lin.const(arr.n), None, tuple(arr.elems)))]
    # length from the generic argument [T; N]
    ga = [a for a in target.get("args", []) if isinstance(a, int)]
    for a in ga:
        t = eng.T(a)
        if t["k"] == "array" and t["len"] is not None:
            return [(st, new_vec(eng, st, Lin.const(t["len"]), None, None))]
    return [(st, new_vec(eng, st, eng.len_sym(eng.fresh("veclen")), None, None))]


# ------------------------------------------------------------------ panics, fmt, misc

@stub(r"^core::panicking::|^std::rt::begin_panic|^core::option::unwrap_failed|^core::result::unwrap_failed|^core::option::expect_failed|^std::process::(abort|exit)$")
def panic_stub(eng, st, site, func, target, args, dty):
    frame, bb, t = site
    msg = None
    if args and isinstance(args[0], VSlice) and isinstance(args[0].base, tuple) and args[0].base[0] == "const":
        try:
            msg = bytes(args[0].base[1]).decode()
        except Exception:
            msg = None
    eng.oblig("panic-reach", frame, bb, eng.callee_label(func), False, st, "explicit panic reachable: %s" % (msg or "panic"), t.get("ln"))
    st.emit(("panic", msg, site_info(site)))
    if "panic_sink" in eng.hooks:
        eng.hooks["panic_sink"](frame, st, bb, msg)
    return []


@stub(r"^core::fmt::|^std::fmt::|^std::io::_e?print$|^std::hint::must_use$|^num_enum::TryFromPrimitiveError|^thiserror::|^alloc::fmt::format")
def total_opaque(eng, st, site, func, target, args, dty):
    nm = target["name"]
    if nm == "std::hint::must_use":
        return [(st, args[0])]
    m_ = re.search(r"rt::Argument::<'_>::new_(display|debug|lower_hex|upper_hex)$", nm)
    if m_ and args:
        # a value of one of the crate's own types handed to the formatting machinery: its Display / Debug impl will be
        # called with it, so what that impl does (and requires) belongs to this path
        tr = {"display": "std::fmt::Display", "debug": "std::fmt::Debug", "lower_hex": "std::fmt::LowerHex", "upper_hex": "std::fmt::UpperHex"}[m_.group(1)]
        ga = [g for g in (target.get("args") or func.get("args") or []) if isinstance(g, int)]
        impl = None
        if ga:
            for f_ in eng.fx.raw["fns"]:
                if f_.get("trait") == tr and f_.get("item") == "fmt" and f_.get("self_ty") == ga[0] and f_.get("body"):
                    impl = f_
        if impl is not None and site[0].depth < 30:
            fcell = ("tmp", eng.fresh("formatter"))
            st.cells[fcell] = VUnknown(None, eng.fresh("formatter"))
            out = []
            for s2, _r in eng.call_local(st, site, impl["key"], [args[0], VRef(fcell, (), True)], tag="fmt"):
                out.append((s2, VUnknown(dty, eng.fresh("fmtarg"))))
            if out:
                return out
    if nm.startswith("std::io::"):
        st.emit(("io", nm, site_info(site)))
    if "Formatter" in nm and ("write_str" in nm or "write_fmt" in nm):
        lit = None
        if len(args) > 1 and isinstance(args[1], VSlice) and isinstance(args[1].base, tuple) and args[1].base[0] == "const":
            lit = bytes(args[1].base[1]).decode("utf8", "replace")
        st.emit(("fmt", nm.rsplit("::", 1)[1], lit, site_info(site)))
    if dty is not None:
        t = eng.T(dty)
        if t["k"] == "tuple" and not t["of"]:
            return [(st, UNIT)]
        if t["k"] == "adt" and t["name"] == "std::string::String":
            return [(st, new_vec(eng, st, eng.len_sym(eng.fresh("fmtlen")), None, None))]
    return [(st, VUnknown(dty, eng.fresh("fmt")))]


# ------------------------------------------------------------------ iterators

@stub(r"std::iter::IntoIterator>::into_iter$|^std::iter::IntoIterator::into_iter$|std::iter::IntoIterator for \[T; N\]>::into_iter$")
def into_iter(eng, st, site, func, target, args, dty):
    a = args[0]
    if isinstance(a, VArr):
        return [(st, VIter("array", a.elems, 0, a.name))]
    if isinstance(a, (VIter, VAdt)):
        return [(st, a)]
    cell, v = get_vec(eng, st, a)
    if v is not None:
        return [(st, VIter("vec", v.len, Lin.const(0), cell))]
    s = as_slice(eng, st, a)
    if s is not None:
        return [(st, VIter("slice", s.len, Lin.const(0), s))]
    return None


@stub(r"^std::iter::Iterator::chain$")
def iter_chain(eng, st, site, func, target, args, dty):
    a = iter_items(eng, st, args[0] if not isinstance(args[0], VArr) else VIter("array", args[0].elems, 0))
    b = iter_items(eng, st, args[1] if not isinstance(args[1], VArr) else VIter("array", args[1].elems, 0))
    if a is None or b is None:
        import stubs3
        ia, ib = stubs3._as_iter(eng, st, args[0]), stubs3._as_iter(eng, st, args[1])
        if ia is None or ib is None:
            return None
        return [(st, VIter("chain2", None, 0, (ia, ib), None))]
    return [(st, VIter("array", tuple(a) + tuple(b), 0, "chain"))]


@stub(r"^std::iter::Iterator::zip$")
def iter_zip(eng, st, site, func, target, args, dty):
    a, b = args[0], args[1]
    if isinstance(b, VArr):
        b = VIter("array", b.elems, 0, b.name)
    if not isinstance(b, VIter):
        # the second operand is any IntoIterator: &[T; N], &[T], &Vec<T>
        sb = as_slice(eng, st, b)
        if sb is not None:
            b = VIter("slice", sb.len, Lin.const(0), sb)
    if isinstance(a, VIter) and isinstance(b, VIter) and a.kind == "slice" and b.kind == "slice" and a.pos == b.pos:
        # zip stops with the shorter side
        if eng.ent(st, c_le(a.src.len, b.src.len)):
            n = a.src.len
        elif eng.ent(st, c_le(b.src.len, a.src.len)):
            n = b.src.len
        else:
            n = None
        if n is not None:
            return [(st, VIter("zip", n, a.pos, (a.src, b.src)))]
    # general case: two arbitrary iterators advanced in turn
    import stubs3
    ia, ib = stubs3._as_iter(eng, st, a), stubs3._as_iter(eng, st, b)
    if ia is None or ib is None:
        return None
    return [(st, VIter("zip2", None, 0, (ia, ib), None))]


@stub(r"^<u(8|16|32|64|size) as std::default::Default>::default$")
def int_default(eng, st, site, func, target, args, dty):
    return [(st, eng.const_int(dty, 0))]


@stub(r"^std::iter::Iterator::rev$")
def iter_rev(eng, st, site, func, target, args, dty):
    return [(st, VAdt(dty if dty is not None else "std::iter::Rev", Lin.const(0), {0: (args[0],)}))]


def range_fields(eng, st, v):
    if isinstance(v, VAdt) and (eng.adt_name(v) or "").endswith("ops::Range"):
        fs = eng.variant_fields(st, v, 0)
        if fs and len(fs) == 2 and isinstance(fs[0], VInt) and isinstance(fs[1], VInt):
            return fs
    return None


@stub(r"std::iter::Iterator>::next$|^std::iter::Iterator::next$|std::iter::Iterator for std::ops::Range<A>>::next$|std::iter::DoubleEndedIterator.*::next_back$")
def iter_next(eng, st, site, func, target, args, dty):
    import iters
    it, loc = deref(eng, st, args[0], 1)
    if loc is None:
        return None
    back = target["name"].endswith("next_back")
    ety = None
    if dty is not None:
        t = eng.T(dty)
        if t["k"] == "adt" and t["args"]:
            ety = t["args"][0]
    res = iters.step(eng, st, site, it, ety, back)
    if res is None:
        return None
    out = []
    for s2, it2, item in res:
        if it2 is not None:
            eng.store(s2, loc[0], loc[1], it2)
        out.append((s2, mk_option(eng, dty, False) if item is iters.END else mk_option(eng, dty, True, item)))
    return out


def iter_items(eng, st, it):
    """finite list of items of an iterator value if statically known"""
    if isinstance(it, VIter) and it.kind == "array" and it.items is not None:
        return list(it.items[it.pos:])
    fs = range_fields(eng, st, it)
    if fs is not None and fs[0].lin.is_const() and fs[1].lin.is_const() and fs[1].lin.c - fs[0].lin.c <= 64:
        return [VInt(fs[0].ty, Lin.const(i)) for i in range(fs[0].lin.c, fs[1].lin.c)]
    return None


def classify_pred(eng, st, site, clo, ety, by_ref):
    """if closure `clo` applied to an element of enum type ety is exactly 'element is variant k'
    (bool result) or 'Some iff element is variant k' (Option result): return k, else None"""
    if ety is None:
        return None
    nv = eng.n_variants(ety)
    if nv is None or nv > 4:
        return None
    yes = []
    eng.mute += 1
    try:
        for k in range(nv):
            probe = st.fork()
            nm = eng.fresh("cls")
            e = eng.symval(probe, ety, nm)
            if not isinstance(e, VAdt):
                return None
            e = VAdt(e.ty, Lin.const(k), {}, e.base)
            arg = e
            if by_ref:
                cell = ("clselem", nm)
                probe.cells[cell] = e
                arg = VRef(cell, (), False)
                if by_ref == 2:
                    # a filter predicate over a by-reference iterator sees &&T
                    cell2 = ("clselem2", nm)
                    probe.cells[cell2] = arg
                    arg = VRef(cell2, (), False)
            rets = eng.call_closure(probe, site, clo, [arg])
            if not rets:
                return None
            vals = set()
            for s3, r in rets:
                if isinstance(r, VBool):
                    b = eng.bool_value(s3, r.f)
                    if b is None:
                        return None
                    vals.add(b)
                elif isinstance(r, VAdt) and r.vidx.is_const():
                    vals.add(r.vidx.c == 1)
                else:
                    return None
            if len(vals) != 1:
                return None
            if vals.pop():
                yes.append(k)
    finally:
        eng.mute -= 1
    if len(yes) == 1:
        return yes[0]
    return None


@stub(r"^std::iter::Iterator::(all|any)$|std::iter::Iterator>::(all|any)$")
def iter_all_any(eng, st, site, func, target, args, dty):
    is_all = target["name"].endswith("all")
    it, loc = deref(eng, st, args[0], 1)
    clo = args[1]
    items = iter_items(eng, st, it)
    if items is not None:
        out = []
        work = [(st, 0)]
        cellname = ("env", eng.fresh("hof"))
        while work:
            s, i = work.pop()
            if i == len(items):
                out.append((s, TRUE if is_all else FALSE))
                continue
            for s2, r in eng.call_closure(s, site, clo, [items[i]]):
                if not isinstance(r, VBool):
                    r = VBool(("sym", eng.fresh("pred")))
                s_f = s2.fork()
                for s3 in eng.assume(s2, r.f, True):
                    if is_all:
                        work.append((s3, i + 1))
                    else:
                        out.append((s3, TRUE))
                for s3 in eng.assume(s_f, r.f, False):
                    if is_all:
                        out.append((s3, FALSE))
                    else:
                        work.append((s3, i + 1))
        return out
    # unknown number of elements: analyse the predicate once on an arbitrary element for its
    # obligations/effects, result is an opaque boolean tied to the iterated collection
    probe = st.fork()
    nm = eng.fresh("elem")
    ety = None
    elem = VUnknown(None, nm)
    if isinstance(it, VIter) and it.kind == "slice" and isinstance(it.src, VSlice):
        cell = ("anyelem", nm)
        ety = it.src.elem
        probe.cells[cell] = eng.symval(probe, ety, nm) if ety is not None else VUnknown(None, nm)
        elem = VRef(cell, (), False)
    eng.call_closure(probe, site, clo, [elem])
    src = it.src.base if isinstance(it, VIter) and isinstance(it.src, VSlice) else None
    k = classify_pred(eng, st, site, clo, ety, True) if src is not None else None
    nv = eng.n_variants(ety) if ety is not None else None
    if k is not None and not is_all:
        sym = ("sym", "any:v%d:%r" % (k, src))
    elif k is not None and is_all and nv == 2:
        # all elements are variant k  <=>  no element is variant 1-k
        sym = ("not", ("sym", "any:v%d:%r" % (1 - k, src)))
    else:
        sym = ("sym", "%s(%r)#%s" % ("all" if is_all else "any", src, eng.fresh("p")))
    st.emit(("hof", "all" if is_all else "any", src, clo.key if isinstance(clo, VClosure) else None, site_info(site)))
    return [(st, VBool(sym))]


@stub(r"^std::iter::Iterator::filter_map$|^std::iter::Iterator::map$|^std::iter::Iterator::filter$")
def iter_adapt(eng, st, site, func, target, args, dty):
    return [(st, VIter(target["name"].split("::")[-1], None, 0, args[0], args[1]))]


def _typed_collect(eng, st, site, key, args, dty):
    """run a synthetic collect loop and give the resulting vector the element type of the requested Vec<T>"""
    ety = None
    if dty is not None:
        t = eng.T(dty)
        if t["k"] == "adt" and t.get("args") and isinstance(t["args"][0], int):
            ety = t["args"][0]
    out = []
    for s2, r in eng.call_local(st, site, key, args, tag="collect"):
        if ety is not None and isinstance(r, VRef):
            v = s2.cells.get(r.cell)
            if isinstance(v, VVec) and v.elem_ty is None:
                s2.cells[r.cell] = VVec(v.len, v.segs, v.elems, v.name, ety, v.marks)
        out.append((s2, r))
    return out


def _has_mut_capture(eng, st, clo):
    """does this closure capture something by mutable reference (so that running it has effects)?"""
    if isinstance(clo, VRef):
        clo = eng.load(st, clo.cell, clo.path)
    if not isinstance(clo, VClosure):
        return False
    for u in clo.upvars:
        if isinstance(u, VRef) and u.mut:
            return True
        if isinstance(u, VClosure) and _has_mut_capture(eng, st, u):
            return True
    return False


@stub(r"^std::iter::Iterator::collect$")
def iter_collect(eng, st, site, func, target, args, dty):
    it = args[0]
    if isinstance(it, VIter) and it.kind in ("filter_map", "map", "filter") and it.extra is not None and _has_mut_capture(eng, st, it.extra) \
            and (dty is None or eng.T(dty).get("name") == "std::vec::Vec"):
        # an adaptor closure with side effects (e.g. it pushes the rejected items elsewhere): analyse the collection as
        # the loop it is, one element per iteration
        if it.kind == "filter_map":
            return _typed_collect(eng, st, site, "synth::collect_filter_map", [it.src, it.extra], dty)
        return _typed_collect(eng, st, site, "synth::collect", [it], dty)
    if isinstance(it, VIter) and it.kind in ("from_fn", "map_while", "take", "enumerate", "zip2", "chain2", "copied", "flatten", "chunks") \
            and (dty is None or eng.T(dty).get("name") == "std::vec::Vec"):
        # lazily stepped iterators without a closed form: the collection is the loop it is
        return _typed_collect(eng, st, site, "synth::collect", [it], dty)
    bound = None
    src_cell = None
    if isinstance(it, VIter) and it.extra is not None:
        # run the adaptor closure once on an arbitrary element (effects/obligations)
        probe = st.fork()
        inner = it.src
        ety = None
        nm = eng.fresh("elem")
        x = VUnknown(None, nm)
        if isinstance(inner, VIter) and inner.kind == "vec":
            src_cell = inner.src
            v = probe.cells.get(inner.src)
            if isinstance(v, VVec):
                bound = v.len
        eng.call_closure(probe, site, it.extra, [x])
    ln = eng.new_int(eng.usize_ty(), "collected", 0)
    if bound is not None:
        st.cons.append(c_le(ln.lin, bound))
    if isinstance(it, VIter) and it.kind == "filter_map" and src_cell is not None:
        v = st.cells.get(src_cell)
        ety = v.elem_ty if isinstance(v, VVec) else None
        k = classify_pred(eng, st, site, it.extra, ety, False)
        nv = eng.n_variants(ety) if ety is not None else None
        if k is not None:
            fact = st.bitfacts.get(("sym", "any:v%d:%r" % (k, src_cell)))
            if fact is True:
                st.cons.append(c_le(Lin.const(1), ln.lin))
            elif fact is False:
                st.cons.append(c_eq(ln.lin, Lin.const(0)))
            if nv == 2:
                other = st.bitfacts.get(("sym", "any:v%d:%r" % (1 - k, src_cell)))
                if other is False and bound is not None:
                    st.cons.append(c_eq(ln.lin, bound))
    st.emit(("collect", it.kind if isinstance(it, VIter) else None, src_cell,
             it.extra.key if isinstance(it, VIter) and isinstance(it.extra, VClosure) else None, site_info(site)))
    return [(st, new_vec(eng, st, ln.lin, None, None))]


@stub(r"<impl std::convert::TryFrom<([ui](8|16|32|64|128|size))> for ([ui](8|16|32|64|128|size))>::try_from$")
def int_try_from(eng, st, site, func, target, args, dty):
    import re as _re
    m = _re.search(r"TryFrom<([ui]\w+)> for ([ui]\w+)>::try_from$", target["name"])
    dst = eng.find_type(lambda t: t["k"] == "int" and t["n"] == m.group(2))
    v = args[0]
    if dst is None or not isinstance(v, VInt):
        return None
    lo, hi = eng.int_range(dst)
    out = []
    s_ok = st.fork()
    if eng.add(s_ok, c_le(Lin.const(lo), v.lin)) and eng.add(s_ok, c_le(v.lin, Lin.const(hi))):
        # the value is unchanged, so is its per-bit provenance (truncated / zero-extended to the new width)
        w, sg = eng.int_info(dst)
        bits = eng.bits_of(v)
        nb = None
        if bits is not None and not sg and not eng.int_info(v.ty)[1]:
            nb = tuple(bits[:w]) + (0,) * max(0, w - len(bits))
        out.append((s_ok, mk_result(eng, dty, True, VInt(dst, v.lin, v.mask, nb, v.taint))))
    for c in (c_lt(v.lin, Lin.const(lo)), c_lt(Lin.const(hi), v.lin)):
        s3 = st.fork()
        if eng.add(s3, c):
            out.append((s3, mk_result(eng, dty, False, VUnknown(None, eng.fresh("tryfromint")))))
    return out


# ------------------------------------------------------------------ checked / saturating arithmetic, min / max

@stub(r"^core::num::<impl [ui](8|16|32|64|128|size)>::(checked|saturating|wrapping|overflowing)_(add|sub|mul)$")
def int_arith(eng, st, site, func, target, args, dty):
    mode, op = target["name"].rsplit("::", 1)[1].split("_")
    a, b = args[0], args[1]
    if not (isinstance(a, VInt) and isinstance(b, VInt)):
        return None
    ty = a.ty
    lo, hi = eng.int_range(ty)
    if op == "add":
        m = a.lin + b.lin
    elif op == "sub":
        m = a.lin - b.lin
    else:
        if a.lin.is_const():
            m = b.lin.scale(a.lin.c)
        elif b.lin.is_const():
            m = a.lin.scale(b.lin.c)
        else:
            return None
    inr = [c_le(Lin.const(lo), m), c_le(m, Lin.const(hi))]
    out = []
    tn = eng.taint2(a, b)          # (a value computed from an absolute writer position stays position dependent)
    s_in = st.fork()
    if all(eng.add(s_in, c) for c in inr):
        v = VInt(ty, m, None, None, tn)
        if mode == "checked":
            out.append((s_in, mk_option(eng, dty, True, v)))
        elif mode == "overflowing":
            out.append((s_in, VAdt(dty, Lin.const(0), {0: (v, FALSE)})))
        else:
            out.append((s_in, v))
    for c, sat in ((c_lt(m, Lin.const(lo)), lo), (c_lt(Lin.const(hi), m), hi)):
        s2 = st.fork()
        if eng.add(s2, c):
            if mode == "checked":
                out.append((s2, mk_option(eng, dty, False)))
            elif mode == "saturating":
                out.append((s2, VInt(ty, Lin.const(sat), None, None, tn)))
            elif mode == "overflowing":
                out.append((s2, VAdt(dty, Lin.const(0), {0: (eng.top_int(ty), TRUE)})))
            else:
                w, _ = eng.int_info(ty)
                out.append((s2, VInt(ty, m + (Lin.const(1 << w) if sat == lo else Lin.const(-(1 << w))))))
    return out


@stub(r"^std::cmp::(min|max)$|^std::cmp::Ord::(min|max)$|^core::cmp::(min|max)$|^core::cmp::Ord::(min|max)$")
def min_max(eng, st, site, func, target, args, dty):
    a, b = args[0], args[1]
    if not (isinstance(a, VInt) and isinstance(b, VInt)):
        return None
    is_min = target["name"].endswith("min")
    out = []
    tn = eng.taint2(a, b)          # which operand is chosen depends on both

    def pick(x):
        return x if x.taint == tn else VInt(x.ty, x.lin, x.mask, x.bits, tn)
    s1 = st.fork()
    if eng.add(s1, c_le(a.lin, b.lin)):
        out.append((s1, pick(a if is_min else b)))
    if eng.add(st, c_lt(b.lin, a.lin)):
        out.append((st, pick(b if is_min else a)))
    return out
