"""hand-written MIR bodies (in the driver's JSON form) for std higher-order iterator consumers whose closure has
side effects: the engine analyses them like any crate function, so their loop goes through the same inductive
loop analysis as a `for` loop written in the crate.

    for_each(iter, f):      loop { match iter.next() { Some(x) => f(x), None => return } }
    fold(iter, init, f):    acc = init; loop { match iter.next() { Some(x) => acc = f(acc, x), None => return acc } }

Locals carry no type ids (None): every value they hold comes from the caller or from a stub."""

LN = "<synthetic>"


def _pl(l, *p):
    return {"l": l, "p": list(p)}


def _assign(l, rv):
    return {"s": "assign", "place": _pl(l), "rv": rv, "ln": LN}


def _blk(stmts, term):
    term = dict(term)
    term.setdefault("ln", LN)
    term.setdefault("exp", False)
    return {"stmts": stmts, "term": term, "cleanup": False}


NEXT = {"key": "core::iter::traits::iterator::Iterator::next", "name": "std::iter::Iterator::next", "args": [], "local": False}


def _fn(key, name, arg_count, nlocals, names, blocks):
    return {"key": key, "name": name, "kind": "Fn", "item": name.split("::")[-1], "container": None, "self_ty": None,
            "trait": None, "trait_item": None, "reachable": True, "ln": LN, "synthetic": True,
            "body": {"arg_count": arg_count, "locals": [None] * nlocals, "names": names, "blocks": blocks},
            "promoted": []}


def for_each():
    # _1 iter, _2 f, _3 next result, _4 &mut iter, _5 item, _6 &mut f, _7 call result, _8 discriminant
    blocks = [
        _blk([], {"t": "goto", "target": 1}),
        _blk([_assign(4, {"k": "ref", "mut": True, "place": _pl(1)})],
             {"t": "call", "func": NEXT, "args": [{"move": _pl(4)}], "dest": _pl(3), "target": 2, "fn_exp": False}),
        _blk([_assign(8, {"k": "discr", "place": _pl(3)})],
             {"t": "switch", "discr": {"move": _pl(8)}, "ty": None, "targets": [[0, 4], [1, 3]], "otherwise": 5}),
        _blk([_assign(5, {"k": "use", "op": {"move": _pl(3, {"dc": 1, "name": "Some"}, {"f": 0, "ty": None})}}),
              _assign(6, {"k": "ref", "mut": True, "place": _pl(2)})],
             {"t": "call", "func": {"indirect": {"move": _pl(6)}}, "args": [{"move": _pl(5)}], "dest": _pl(7), "target": 1,
              "fn_exp": False}),
        _blk([], {"t": "return"}),
        _blk([], {"t": "unreachable"}),
    ]
    names = [{"name": "iter", "place": _pl(1), "arg": 1}, {"name": "f", "place": _pl(2), "arg": 2}]
    return _fn("synth::for_each", "synth::for_each", 2, 9, names, blocks)


def fold():
    # _1 iter, _2 init/acc, _3 f, _4 next result, _5 &mut iter, _6 item, _7 &mut f, _8 discriminant, _9 acc moved
    blocks = [
        _blk([], {"t": "goto", "target": 1}),
        _blk([_assign(5, {"k": "ref", "mut": True, "place": _pl(1)})],
             {"t": "call", "func": NEXT, "args": [{"move": _pl(5)}], "dest": _pl(4), "target": 2, "fn_exp": False}),
        _blk([_assign(8, {"k": "discr", "place": _pl(4)})],
             {"t": "switch", "discr": {"move": _pl(8)}, "ty": None, "targets": [[0, 4], [1, 3]], "otherwise": 5}),
        _blk([_assign(6, {"k": "use", "op": {"move": _pl(4, {"dc": 1, "name": "Some"}, {"f": 0, "ty": None})}}),
              _assign(9, {"k": "use", "op": {"move": _pl(2)}}),
              _assign(7, {"k": "ref", "mut": True, "place": _pl(3)})],
             {"t": "call", "func": {"indirect": {"move": _pl(7)}}, "args": [{"move": _pl(9)}, {"move": _pl(6)}], "dest": _pl(2),
              "target": 1, "fn_exp": False}),
        _blk([_assign(0, {"k": "use", "op": {"move": _pl(2)}})], {"t": "return"}),
        _blk([], {"t": "unreachable"}),
    ]
    names = [{"name": "iter", "place": _pl(1), "arg": 1}, {"name": "acc", "place": _pl(2), "arg": 2}, {"name": "f", "place": _pl(3), "arg": 3}]
    return _fn("synth::fold", "synth::fold", 3, 10, names, blocks)


VEC_NEW = {"key": "alloc::vec::{impl#0}::new", "name": "std::vec::Vec::<T>::new", "args": [], "local": False}
VEC_PUSH = {"key": "alloc::vec::{impl#1}::push", "name": "std::vec::Vec::<T, A>::push", "args": [], "local": False}


def collect_filter_map():
    """collect(inner.filter_map(f)) fused into one loop: v = Vec::new(); for x in inner { if let Some(y) = f(x) { v.push(y) } }
    (used when f has side effects, e.g. pushes the rejected items somewhere else)"""
    # _1 inner, _2 f, _3 next result, _4 &mut inner, _5 item, _6 &mut f, _7 f's result, _8 kept, _9 &mut result, _10 unit, _11/_12 discriminants
    blocks = [
        _blk([], {"t": "call", "func": VEC_NEW, "args": [], "dest": _pl(0), "target": 1, "fn_exp": False}),
        _blk([_assign(4, {"k": "ref", "mut": True, "place": _pl(1)})],
             {"t": "call", "func": NEXT, "args": [{"move": _pl(4)}], "dest": _pl(3), "target": 2, "fn_exp": False}),
        _blk([_assign(11, {"k": "discr", "place": _pl(3)})],
             {"t": "switch", "discr": {"move": _pl(11)}, "ty": None, "targets": [[0, 6], [1, 3]], "otherwise": 7}),
        _blk([_assign(5, {"k": "use", "op": {"move": _pl(3, {"dc": 1, "name": "Some"}, {"f": 0, "ty": None})}}),
              _assign(6, {"k": "ref", "mut": True, "place": _pl(2)})],
             {"t": "call", "func": {"indirect": {"move": _pl(6)}}, "args": [{"move": _pl(5)}], "dest": _pl(7), "target": 4, "fn_exp": False}),
        _blk([_assign(12, {"k": "discr", "place": _pl(7)})],
             {"t": "switch", "discr": {"move": _pl(12)}, "ty": None, "targets": [[0, 1], [1, 5]], "otherwise": 7}),
        _blk([_assign(8, {"k": "use", "op": {"move": _pl(7, {"dc": 1, "name": "Some"}, {"f": 0, "ty": None})}}),
              _assign(9, {"k": "ref", "mut": True, "place": _pl(0)})],
             {"t": "call", "func": VEC_PUSH, "args": [{"move": _pl(9)}, {"move": _pl(8)}], "dest": _pl(10), "target": 1, "fn_exp": False}),
        _blk([], {"t": "return"}),
        _blk([], {"t": "unreachable"}),
    ]
    names = [{"name": "iter", "place": _pl(1), "arg": 1}, {"name": "f", "place": _pl(2), "arg": 2}]
    return _fn("synth::collect_filter_map", "synth::collect_filter_map", 2, 13, names, blocks)


def collect_plain():
    """collect(iter): v = Vec::new(); for x in iter { v.push(x) }"""
    blocks = [
        _blk([], {"t": "call", "func": VEC_NEW, "args": [], "dest": _pl(0), "target": 1, "fn_exp": False}),
        _blk([_assign(4, {"k": "ref", "mut": True, "place": _pl(1)})],
             {"t": "call", "func": NEXT, "args": [{"move": _pl(4)}], "dest": _pl(3), "target": 2, "fn_exp": False}),
        _blk([_assign(6, {"k": "discr", "place": _pl(3)})],
             {"t": "switch", "discr": {"move": _pl(6)}, "ty": None, "targets": [[0, 4], [1, 3]], "otherwise": 5}),
        _blk([_assign(5, {"k": "use", "op": {"move": _pl(3, {"dc": 1, "name": "Some"}, {"f": 0, "ty": None})}}),
              _assign(7, {"k": "ref", "mut": True, "place": _pl(0)})],
             {"t": "call", "func": VEC_PUSH, "args": [{"move": _pl(7)}, {"move": _pl(5)}], "dest": _pl(8), "target": 1, "fn_exp": False}),
        _blk([], {"t": "return"}),
        _blk([], {"t": "unreachable"}),
    ]
    names = [{"name": "iter", "place": _pl(1), "arg": 1}]
    return _fn("synth::collect", "synth::collect", 1, 9, names, blocks)


def find():
    """find(&mut iter, pred): loop { match iter.next() { Some(x) => if pred(&x) { return Some(x) }, None => return None } }"""
    # _1 &mut iter, _2 pred, _3 next result, _4 reborrow, _5 &item, _6 &mut pred, _7 bool, _8 discriminant
    some0 = _pl(3, {"dc": 1, "name": "Some"}, {"f": 0, "ty": None})
    blocks = [
        _blk([], {"t": "goto", "target": 1}),
        _blk([_assign(4, {"k": "ref", "mut": True, "place": _pl(1, "deref")})],
             {"t": "call", "func": NEXT, "args": [{"move": _pl(4)}], "dest": _pl(3), "target": 2, "fn_exp": False}),
        _blk([_assign(8, {"k": "discr", "place": _pl(3)})],
             {"t": "switch", "discr": {"move": _pl(8)}, "ty": None, "targets": [[0, 5], [1, 3]], "otherwise": 6}),
        _blk([_assign(5, {"k": "ref", "mut": False, "place": some0}),
              _assign(6, {"k": "ref", "mut": True, "place": _pl(2)})],
             {"t": "call", "func": {"indirect": {"move": _pl(6)}}, "args": [{"move": _pl(5)}], "dest": _pl(7), "target": 4, "fn_exp": False}),
        _blk([], {"t": "switch", "discr": {"move": _pl(7)}, "ty": None, "targets": [[0, 1]], "otherwise": 5}),
        _blk([_assign(0, {"k": "use", "op": {"move": _pl(3)}})], {"t": "return"}),
        _blk([], {"t": "unreachable"}),
    ]
    names = [{"name": "iter", "place": _pl(1), "arg": 1}, {"name": "pred", "place": _pl(2), "arg": 2}]
    return _fn("synth::find", "synth::find", 2, 9, names, blocks)


def count():
    """count(iter): n = 0; loop { match iter.next() { Some(_) => n += 1, None => return n } }"""
    # _1 iter, _2 n, _3 next result, _4 &mut iter, _5 discriminant
    usz = {"ty": None, "bits": 0}
    blocks = [
        _blk([_assign(2, {"k": "use", "op": {"const": {"usize": 0}}})], {"t": "goto", "target": 1}),
        _blk([_assign(4, {"k": "ref", "mut": True, "place": _pl(1)})],
             {"t": "call", "func": NEXT, "args": [{"move": _pl(4)}], "dest": _pl(3), "target": 2, "fn_exp": False}),
        _blk([_assign(5, {"k": "discr", "place": _pl(3)})],
             {"t": "switch", "discr": {"move": _pl(5)}, "ty": None, "targets": [[0, 4], [1, 3]], "otherwise": 5}),
        _blk([_assign(2, {"k": "bin", "op": "AddUnchecked", "l": {"copy": _pl(2)}, "r": {"const": {"usize": 1}}})], {"t": "goto", "target": 1}),
        _blk([_assign(0, {"k": "use", "op": {"move": _pl(2)}})], {"t": "return"}),
        _blk([], {"t": "unreachable"}),
    ]
    names = [{"name": "iter", "place": _pl(1), "arg": 1}]
    return _fn("synth::fold_count", "synth::fold_count", 1, 6, names, blocks)


def all_fns():
    return [for_each(), fold(), collect_filter_map(), collect_plain(), find(), count()]
