"""further std models: the Option/Result combinator family and small iterator/array helpers that
behaviour-preserving refactors commonly reach for (registered into stubs.STUBS)"""
from lin import Lin, c_le, c_lt, c_eq, c_ne
from absval import *
from stubs import (stub, deref, get_vec, as_slice, slice_desc, mk_option, mk_result, split_variants,
                   site_info, pre)
from stubs2 import new_vec, usz


def _payload(eng, fs, what="payload"):
    return fs[0] if fs else VUnknown(None, eng.fresh(what))


def _is_opt(target):
    return "Option" in target["name"].split("::<")[0]


def _good(target):
    """index of the 'carrying' variant: Some = 1, Ok = 0"""
    return 1 if _is_opt(target) else 0


def _mk(eng, target, dty, good, val=None):
    if _is_opt(target):
        return mk_option(eng, dty, good, val)
    return mk_result(eng, dty, good, val)


# ------------------------------------------------------------------ map / and_then / or_else families

@stub(r"^std::result::Result::<T, E>::map$")
def result_map(eng, st, site, func, target, args, dty):
    out = []
    for s2, vi, fs in split_variants(eng, st, args[0]):
        x = _payload(eng, fs)
        if vi == 0:
            for s3, r in eng.call_closure(s2, site, args[1], [x]):
                out.append((s3, mk_result(eng, dty, True, r)))
        else:
            out.append((s2, mk_result(eng, dty, False, x)))
    return out


@stub(r"^std::option::Option::<T>::map_or$|^std::result::Result::<T, E>::map_or$")
def map_or(eng, st, site, func, target, args, dty):
    g = _good(target)
    out = []
    for s2, vi, fs in split_variants(eng, st, args[0]):
        if vi == g:
            out.extend(eng.call_closure(s2, site, args[2], [_payload(eng, fs)]))
        else:
            out.append((s2, args[1]))
    return out


@stub(r"^std::option::Option::<T>::map_or_else$|^std::result::Result::<T, E>::map_or_else$")
def map_or_else(eng, st, site, func, target, args, dty):
    g = _good(target)
    opt = _is_opt(target)
    out = []
    for s2, vi, fs in split_variants(eng, st, args[0]):
        if vi == g:
            out.extend(eng.call_closure(s2, site, args[2], [_payload(eng, fs)]))
        else:
            out.extend(eng.call_closure(s2, site, args[1], [] if opt else [_payload(eng, fs)]))
    return out


@stub(r"^std::option::Option::<T>::and_then$|^std::result::Result::<T, E>::and_then$")
def and_then(eng, st, site, func, target, args, dty):
    g = _good(target)
    out = []
    for s2, vi, fs in split_variants(eng, st, args[0]):
        if vi == g:
            out.extend(eng.call_closure(s2, site, args[1], [_payload(eng, fs)]))
        elif _is_opt(target):
            out.append((s2, mk_option(eng, dty, False)))
        else:
            out.append((s2, mk_result(eng, dty, False, _payload(eng, fs))))
    return out


@stub(r"^std::option::Option::<T>::or_else$|^std::result::Result::<T, E>::or_else$")
def or_else(eng, st, site, func, target, args, dty):
    g = _good(target)
    opt = _is_opt(target)
    out = []
    for s2, vi, fs in split_variants(eng, st, args[0]):
        if vi == g:
            out.append((s2, _mk(eng, target, dty, True, _payload(eng, fs))))
        else:
            out.extend(eng.call_closure(s2, site, args[1], [] if opt else [_payload(eng, fs)]))
    return out


@stub(r"^std::option::Option::<T>::or$|^std::result::Result::<T, E>::or$")
def or_(eng, st, site, func, target, args, dty):
    g = _good(target)
    out = []
    for s2, vi, fs in split_variants(eng, st, args[0]):
        if vi == g:
            out.append((s2, _mk(eng, target, dty, True, _payload(eng, fs))))
        else:
            out.append((s2, args[1]))
    return out


@stub(r"^std::option::Option::<T>::and$|^std::result::Result::<T, E>::and$")
def and_(eng, st, site, func, target, args, dty):
    g = _good(target)
    out = []
    for s2, vi, fs in split_variants(eng, st, args[0]):
        if vi == g:
            out.append((s2, args[1]))
        elif _is_opt(target):
            out.append((s2, mk_option(eng, dty, False)))
        else:
            out.append((s2, mk_result(eng, dty, False, _payload(eng, fs))))
    return out


@stub(r"^std::option::Option::<T>::ok_or_else$")
def ok_or_else(eng, st, site, func, target, args, dty):
    out = []
    for s2, vi, fs in split_variants(eng, st, args[0]):
        if vi == 1:
            out.append((s2, mk_result(eng, dty, True, _payload(eng, fs, "some"))))
        else:
            for s3, r in eng.call_closure(s2, site, args[1], []):
                out.append((s3, mk_result(eng, dty, False, r)))
    return out


@stub(r"^std::option::Option::<T>::unwrap_or_else$|^std::result::Result::<T, E>::unwrap_or_else$")
def unwrap_or_else(eng, st, site, func, target, args, dty):
    g = _good(target)
    opt = _is_opt(target)
    out = []
    for s2, vi, fs in split_variants(eng, st, args[0]):
        if vi == g:
            out.append((s2, _payload(eng, fs)))
        else:
            out.extend(eng.call_closure(s2, site, args[1], [] if opt else [_payload(eng, fs)]))
    return out


@stub(r"^std::result::Result::<T, E>::unwrap_or_default$")
def result_unwrap_or_default(eng, st, site, func, target, args, dty):
    out = []
    for s2, vi, fs in split_variants(eng, st, args[0]):
        if vi == 0:
            out.append((s2, _payload(eng, fs)))
        else:
            t = eng.T(dty) if dty is not None else {"k": "?"}
            if t["k"] == "adt" and t["name"] in ("std::vec::Vec", "std::string::String"):
                out.append((s2, new_vec(eng, s2, Lin.const(0))))
            elif t["k"] == "int":
                out.append((s2, eng.const_int(dty, 0)))
            else:
                out.append((s2, VUnknown(dty, eng.fresh("default"))))
    return out


@stub(r"^std::option::Option::<T>::filter$")
def option_filter(eng, st, site, func, target, args, dty):
    out = []
    for s2, vi, fs in split_variants(eng, st, args[0]):
        if vi != 1:
            out.append((s2, mk_option(eng, dty, False)))
            continue
        x = _payload(eng, fs, "some")
        cell = ("tmp", eng.fresh("flt"))
        s2.cells[cell] = x
        for s3, r in eng.call_closure(s2, site, args[1], [VRef(cell, (), False)]):
            for s4, b in eng.split_bool(s3, r):
                out.append((s4, mk_option(eng, dty, True, x) if b else mk_option(eng, dty, False)))
    return out


@stub(r"^std::option::Option::<T>::(is_some_and|is_none_or)$|^std::result::Result::<T, E>::(is_ok_and|is_err_and)$")
def is_x_and(eng, st, site, func, target, args, dty):
    nm = target["name"].rsplit("::", 1)[1]
    carrying = {"is_some_and": 1, "is_none_or": 1, "is_ok_and": 0, "is_err_and": 1}[nm]
    other = TRUE if nm == "is_none_or" else FALSE
    out = []
    for s2, vi, fs in split_variants(eng, st, args[0]):
        if vi == carrying:
            out.extend(eng.call_closure(s2, site, args[1], [_payload(eng, fs)]))
        else:
            out.append((s2, other))
    return out


@stub(r"^std::option::Option::<&T>::(copied|cloned)$|^std::option::Option::<&mut T>::(copied|cloned)$|"
      r"^std::result::Result::<&T, E>::(copied|cloned)$")
def copied(eng, st, site, func, target, args, dty):
    g = _good(target)
    out = []
    for s2, vi, fs in split_variants(eng, st, args[0]):
        if vi == g:
            x = _payload(eng, fs)
            if isinstance(x, VRef):
                x = eng.load(s2, x.cell, x.path)
            out.append((s2, _mk(eng, target, dty, True, x)))
        elif _is_opt(target):
            out.append((s2, mk_option(eng, dty, False)))
        else:
            out.append((s2, mk_result(eng, dty, False, _payload(eng, fs))))
    return out


@stub(r"^std::result::Result::<T, E>::(as_ref|as_mut)$")
def result_as_ref(eng, st, site, func, target, args, dty):
    a = args[0]
    if not isinstance(a, VRef):
        return None
    v = eng.load(st, a.cell, a.path)
    if isinstance(v, VUnknown) and v.ty is not None:
        v = eng.symval(st, v.ty, v.name or eng.fresh("u"))
        eng.store(st, a.cell, a.path, v)
    out = []
    for s2, vi, fs in split_variants(eng, st, v):
        out.append((s2, mk_result(eng, dty, vi == 0, VRef(a.cell, a.path + (("f", vi, 0),), a.mut))))
    return out


@stub(r"^std::option::Option::<T>::take$")
def option_take(eng, st, site, func, target, args, dty):
    a = args[0]
    if not isinstance(a, VRef):
        return None
    v = eng.load(st, a.cell, a.path)
    eng.store(st, a.cell, a.path, mk_option(eng, dty, False))
    return [(st, v)]


@stub(r"^core::bool::<impl bool>::then_some$")
def then_some(eng, st, site, func, target, args, dty):
    out = []
    for s2, b in eng.split_bool(st, args[0]):
        out.append((s2, mk_option(eng, dty, True, args[1]) if b else mk_option(eng, dty, False)))
    return out


@stub(r"^core::bool::<impl bool>::then$")
def then(eng, st, site, func, target, args, dty):
    out = []
    for s2, b in eng.split_bool(st, args[0]):
        if b:
            for s3, r in eng.call_closure(s2, site, args[1], []):
                out.append((s3, mk_option(eng, dty, True, r)))
        else:
            out.append((s2, mk_option(eng, dty, False)))
    return out


# ------------------------------------------------------------------ iterator consumers with side-effecting closures

@stub(r"^std::iter::Iterator::for_each$|std::iter::Iterator>::for_each$")
def iter_for_each(eng, st, site, func, target, args, dty):
    return eng.call_local(st, site, "synth::for_each", [args[0], args[1]], tag="for_each")


@stub(r"^std::iter::Iterator::fold$|std::iter::Iterator>::fold$")
def iter_fold(eng, st, site, func, target, args, dty):
    return eng.call_local(st, site, "synth::fold", [args[0], args[1], args[2]], tag="fold")


# ------------------------------------------------------------------ bit operators on integers through references
# (`*a ^= b` with b: &u8 is a call of <u8 as BitXorAssign<&u8>>::bitxor_assign, not a MIR BinaryOp)

_BITOPS = {"bitxor": "BitXor", "bitand": "BitAnd", "bitor": "BitOr"}


def _int_arg(eng, st, v):
    for _ in range(2):
        if isinstance(v, VRef):
            v = eng.load(st, v.cell, v.path)
    return v if isinstance(v, VInt) else None


@stub(r"^<&?[ui](8|16|32|64|128|size) as std::ops::Bit(Xor|And|Or)Assign<&?[ui](8|16|32|64|128|size)>>::bit(xor|and|or)_assign$")
def int_bitop_assign(eng, st, site, func, target, args, dty):
    frame, bb, t = site
    dst = args[0]
    if not isinstance(dst, VRef):
        return None
    cur = _int_arg(eng, st, dst)
    rhs = _int_arg(eng, st, args[1])
    if cur is None or rhs is None:
        return None
    op = _BITOPS[target["name"].rsplit("::", 1)[1].replace("_assign", "")]
    res = eng.binop(st, frame, bb, op, cur, rhs, cur.ty, t.get("ln"), cur.ty)
    if op == "BitXor" and not eng.mute and dst.path and dst.path[-1][0] in ("e", "ei"):
        di = dst.path[-1][1] if dst.path[-1][0] == "ei" else Lin.const(dst.path[-1][1])
        for ov in (cur, rhs):
            if len(ov.lin.t) == 1 and ov.lin.c == 0:
                info = getattr(eng, "elem_syms", {}).get(next(iter(ov.lin.t)))
                if info is not None and not (isinstance(info[2], tuple) and info[2] and info[2][0] == "vec"):
                    st.emit(("xor", dst.cell, di, info[0], info[1], {"fn": frame.fn["name"], "bb": bb, "ln": t.get("ln")}, info[2]))
    eng.store(st, dst.cell, dst.path, res)
    return [(st, UNIT)]


@stub(r"^<&?[ui](8|16|32|64|128|size) as std::ops::Bit(Xor|And|Or)<&?[ui](8|16|32|64|128|size)>>::bit(xor|and|or)$")
def int_bitop(eng, st, site, func, target, args, dty):
    frame, bb, t = site
    a = _int_arg(eng, st, args[0])
    b = _int_arg(eng, st, args[1])
    if a is None or b is None:
        return None
    op = _BITOPS[target["name"].rsplit("::", 1)[1]]
    return [(st, eng.binop(st, frame, bb, op, a, b, a.ty, t.get("ln"), a.ty))]


@stub(r"^std::string::String::truncate$")
def string_truncate(eng, st, site, func, target, args, dty):
    """String::truncate(n): no-op when n >= len, panics when n is not on a char boundary"""
    frame, bb, t = site
    cell, v = get_vec(eng, st, args[0])
    n = args[1]
    if v is None or not isinstance(n, VInt):
        return None
    if eng.ent(st, c_le(v.len, n.lin)):
        return [(st, UNIT)]
    zero = eng.ent(st, c_eq(n.lin, Lin.const(0)))
    eng.oblig("bounds", frame, bb, eng.callee_label(func) + " (char boundary)", zero, st,
              None if zero else "String::truncate(%r) on a string of %r octets: the cut is not known to be a char boundary" % (n.lin, v.len), t.get("ln"))
    nl = eng.new_int(eng.usize_ty(), "trunc", 0)
    st.cons.append(c_le(nl.lin, v.len))
    st.cons.append(c_le(nl.lin, n.lin))
    st.cells[cell] = VVec(nl.lin, None, None, v.name, v.elem_ty)
    return [(st, UNIT)]


# ------------------------------------------------------------------ iterator adaptors (see lib/iters.py for their step semantics)

def _as_iter(eng, st, v):
    """IntoIterator view of a value: iterators stay, arrays / slices / vec references become iterators"""
    if isinstance(v, VIter) or (isinstance(v, VAdt) and (eng.adt_name(v) or "").endswith(("ops::Range", "iter::Rev"))):
        return v
    if isinstance(v, VArr):
        return VIter("array", v.elems, 0, v.name) if v.elems is not None else None
    if isinstance(v, VRef):
        t = eng.load(st, v.cell, v.path)
        if isinstance(t, VIter):
            return t
    sl = as_slice(eng, st, v)
    if sl is not None:
        return VIter("slice", sl.len, Lin.const(0), sl)
    return None


@stub(r"^std::iter::Iterator::take$|std::iter::Iterator>::take$")
def iter_take(eng, st, site, func, target, args, dty):
    it = _as_iter(eng, st, args[0])
    if it is None or not isinstance(args[1], VInt):
        return None
    return [(st, VIter("take", None, args[1].lin, it, None))]


@stub(r"^std::iter::Iterator::skip$|std::iter::Iterator>::skip$")
def iter_skip(eng, st, site, func, target, args, dty):
    it = _as_iter(eng, st, args[0])
    n = args[1]
    if not (isinstance(it, VIter) and isinstance(it.pos, Lin) and it.kind in ("slice", "vec", "chunks", "zip") and isinstance(n, VInt)):
        return None
    if it.kind == "slice":
        ln = it.src.len
    elif it.kind == "chunks":
        ln = it.items
    elif it.kind == "zip":
        ln = it.items
    else:
        vv = st.cells.get(it.src)
        ln = vv.len if isinstance(vv, VVec) else None
    if ln is None:
        return None
    out = []
    s1 = st.fork()
    if eng.add(s1, c_le(it.pos + n.lin, ln)):
        out.append((s1, VIter(it.kind, it.items, it.pos + n.lin, it.src, it.extra)))
    if eng.add(st, c_lt(ln, it.pos + n.lin)):
        out.append((st, VIter(it.kind, it.items, ln, it.src, it.extra)))       # skipping past the end leaves it exhausted
    return out


@stub(r"^std::iter::Iterator::enumerate$|std::iter::Iterator>::enumerate$")
def iter_enumerate(eng, st, site, func, target, args, dty):
    it = _as_iter(eng, st, args[0])
    if it is None:
        return None
    return [(st, VIter("enumerate", None, Lin.const(0), it, None))]


@stub(r"^std::iter::Iterator::(copied|cloned)$|std::iter::Iterator>::(copied|cloned)$")
def iter_copied(eng, st, site, func, target, args, dty):
    it = _as_iter(eng, st, args[0])
    if it is None:
        return None
    return [(st, VIter("copied", None, 0, it, None))]


@stub(r"^std::iter::Iterator::flatten$|std::iter::Iterator>::flatten$")
def iter_flatten(eng, st, site, func, target, args, dty):
    it = _as_iter(eng, st, args[0])
    if it is None:
        return None
    return [(st, VIter("flatten", None, 0, it, None))]


@stub(r"^core::slice::<impl \[T\]>::chunks_exact(_mut)?$")
def slice_chunks_exact(eng, st, site, func, target, args, dty):
    frame, bb, t = site
    s = as_slice(eng, st, args[0])
    n = args[1]
    if s is None or not isinstance(n, VInt):
        return None
    ok = eng.ent(st, c_le(Lin.const(1), n.lin))
    eng.oblig("panic-reach", frame, bb, eng.callee_label(func), ok, st, None if ok else "chunks_exact with a chunk size not proven non-zero", t.get("ln"))
    if not n.lin.is_const() or n.lin.c <= 0:
        return None
    q, _r = eng.divmod_const(st, s.len, n.lin.c)
    if target["name"].endswith("_mut"):
        s = VSlice(s.base, s.start, s.len, s.elem, s.is_str, True)
    return [(st, VIter("chunks", q, Lin.const(0), s, n.lin.c))]


@stub(r"^std::iter::Iterator::count$|std::iter::Iterator>::count$")
def iter_count(eng, st, site, func, target, args, dty):
    """count() of a filter over a vector/slice whose predicate is 'element is variant k': zero iff no such element"""
    from stubs2 import classify_pred
    it = args[0]
    us = eng.usize_ty()
    if isinstance(it, VIter) and it.kind == "chars":
        return chars_count(eng, st, site, func, target, args, dty)
    if isinstance(it, VIter) and it.kind == "filter" and isinstance(it.src, VIter) and it.src.kind in ("slice", "vec"):
        inner = it.src
        if inner.kind == "slice":
            src, ety, ln = inner.src.base, inner.src.elem, inner.src.len
        else:
            src = inner.src
            vv = st.cells.get(src)
            ety, ln = (vv.elem_ty, vv.len) if isinstance(vv, VVec) else (None, None)
        k = classify_pred(eng, st, site, it.extra, ety, 2 if inner.kind == "slice" else True) if ety is not None else None
        if k is not None and ln is not None:
            st.emit(("hof", "any", src, it.extra.key if isinstance(it.extra, VClosure) else None, site_info(site)))
            f = ("sym", "any:v%d:%r" % (k, src))
            out = []
            s0 = st.fork()
            for s2 in eng.assume(s0, f, False):
                out.append((s2, VInt(us, Lin.const(0))))
            for s2 in eng.assume(st, f, True):
                n = eng.new_int(us, "count", 1)
                s2.cons.append(c_le(n.lin, ln))
                out.append((s2, n))
            return out
    if isinstance(it, VIter) and isinstance(it.pos, Lin) and it.kind in ("slice", "vec", "chunks"):
        if it.kind == "slice":
            ln = it.src.len
        elif it.kind == "chunks":
            ln = it.items
        else:
            vv = st.cells.get(it.src)
            ln = vv.len if isinstance(vv, VVec) else None
        if ln is not None and eng.ent(st, c_le(it.pos, ln)):
            return [(st, VInt(us, ln - it.pos))]
    # anything else: as many calls of next() as it takes (the loop it is)
    return eng.call_local(st, site, "synth::fold_count", [it], tag="count") if "synth::fold_count" in eng.fx.fns else None


@stub(r"^std::vec::Vec::<T, A>::extend$|<std::vec::Vec<T, A> as std::iter::Extend<T>>::extend$|^std::iter::Extend::extend$")
def vec_extend(eng, st, site, func, target, args, dty):
    """v.extend(iter) == v.append(&mut iter.collect())"""
    from stubs2 import iter_collect
    cell, v = get_vec(eng, st, args[0])
    if v is None:
        return None
    it = args[1]
    if not isinstance(it, VIter):
        it = _as_iter(eng, st, it)
        if it is None:
            return None
    out = []
    for s2, r in iter_collect(eng, st, site, func, target, [it], None):
        tv = s2.cells.get(r.cell) if isinstance(r, VRef) else None
        cur = s2.cells.get(cell)
        if not isinstance(tv, VVec) or not isinstance(cur, VVec):
            return None
        if cur.len.is_const() and cur.len.c == 0:
            s2.cells[cell] = VVec(tv.len, tv.segs, tv.elems, cur.name, cur.elem_ty or tv.elem_ty, None)
        else:
            s2.cells[cell] = VVec(cur.len + tv.len, None, None, cur.name, cur.elem_ty, None)
        s2.emit(("extend", cell, r.cell, site_info(site)))
        out.append((s2, UNIT))
    return out


@stub(r"^std::option::Option::<\(T, U\)>::unzip$")
def option_unzip(eng, st, site, func, target, args, dty):
    """Option<(A, B)> -> (Option<A>, Option<B>)"""
    ta = tb = None
    if dty is not None:
        t = eng.T(dty)
        if t["k"] == "tuple" and len(t["of"]) == 2:
            ta, tb = t["of"]
    out = []
    for s2, vi, fs in split_variants(eng, st, args[0]):
        if vi == 1:
            tup = fs[0] if fs else None
            if isinstance(tup, VAdt):
                xs = eng.variant_fields(s2, tup, 0)
                a, b = xs[0], xs[1]
            else:
                a, b = VUnknown(None, eng.fresh("unzip")), VUnknown(None, eng.fresh("unzip"))
            out.append((s2, VAdt(dty, Lin.const(0), {0: (mk_option(eng, ta, True, a), mk_option(eng, tb, True, b))})))
        else:
            out.append((s2, VAdt(dty, Lin.const(0), {0: (mk_option(eng, ta, False), mk_option(eng, tb, False))})))
    return out


@stub(r"^std::option::Option::<std::result::Result<T, E>>::transpose$")
def option_transpose(eng, st, site, func, target, args, dty):
    """Option<Result<T, E>> -> Result<Option<T>, E>"""
    oty = None
    if dty is not None:
        t = eng.T(dty)
        if t["k"] == "adt" and t.get("args"):
            oty = t["args"][0] if isinstance(t["args"][0], int) else None
    out = []
    for s2, vi, fs in split_variants(eng, st, args[0]):
        if vi == 0:
            out.append((s2, mk_result(eng, dty, True, mk_option(eng, oty, False))))
            continue
        inner = fs[0] if fs else VUnknown(None, eng.fresh("tr"))
        for s3, v2, f2 in split_variants(eng, s2, inner):
            x = f2[0] if f2 else VUnknown(None, eng.fresh("tr"))
            if v2 == 0:
                out.append((s3, mk_result(eng, dty, True, mk_option(eng, oty, True, x))))
            else:
                out.append((s3, mk_result(eng, dty, False, x)))
    return out


@stub(r"^std::iter::ExactSizeIterator::len$|std::iter::ExactSizeIterator>::len$")
def exact_size_len(eng, st, site, func, target, args, dty):
    it = args[0]
    if isinstance(it, VRef):
        it = eng.load(st, it.cell, it.path)
    us = eng.usize_ty()
    if isinstance(it, VIter) and isinstance(it.pos, Lin) and it.kind in ("slice", "vec", "chunks"):
        if it.kind == "slice":
            ln = it.src.len
        elif it.kind == "chunks":
            ln = it.items
        else:
            vv = st.cells.get(it.src)
            ln = vv.len if isinstance(vv, VVec) else None
        if ln is not None:
            return [(st, VInt(us, ln - it.pos))]
    if isinstance(it, VIter) and it.kind == "array" and it.items is not None:
        return [(st, VInt(us, Lin.const(len(it.items) - it.pos)))]
    return None


@stub(r"^std::vec::Vec::<T, A>::(dedup|dedup_by_key|dedup_by|retain|retain_mut)$")
def vec_shrinking(eng, st, site, func, target, args, dty):
    """in-place removal of some elements: the length does not grow; dedup keeps at least one element of a non-empty vector"""
    cell, v = get_vec(eng, st, args[0])
    if v is None:
        return None
    n = eng.new_int(eng.usize_ty(), "kept", 0)
    st.cons.append(c_le(n.lin, v.len))
    if "dedup" in target["name"].rsplit("::", 1)[1]:
        s1 = st.fork()
        out = []
        if eng.add(s1, c_eq(v.len, Lin.const(0))) and eng.add(s1, c_eq(n.lin, Lin.const(0))):
            s1.cells[cell] = VVec(Lin.const(0), (), None, v.name, v.elem_ty)
            out.append((s1, UNIT))
        if eng.add(st, c_le(Lin.const(1), v.len)) and eng.add(st, c_le(Lin.const(1), n.lin)):
            st.cells[cell] = VVec(n.lin, None, None, (v.name or "vec") + "~", v.elem_ty)
            st.emit(("listop", cell, target["name"], site_info(site)))
            out.append((st, UNIT))
        return out
    st.cells[cell] = VVec(n.lin, None, None, (v.name or "vec") + "~", v.elem_ty)
    st.emit(("listop", cell, target["name"], site_info(site)))
    return [(st, UNIT)]


@stub(r"^core::slice::<impl \[T\]>::(sort|sort_unstable|sort_by|sort_by_key|sort_unstable_by|sort_unstable_by_key|reverse)$|^std::slice::<impl \[T\]>::(sort|sort_by|sort_by_key)$")
def slice_permute(eng, st, site, func, target, args, dty):
    """in-place permutation: same length, content order unknown afterwards"""
    s = as_slice(eng, st, args[0])
    if s is None:
        return None
    tgt = st.cells.get(s.base)
    if isinstance(tgt, VVec):
        st.cells[s.base] = VVec(tgt.len, None, None, (tgt.name or "vec") + "~", tgt.elem_ty)
        st.emit(("listop", s.base, target["name"], site_info(site)))
    return [(st, UNIT)]


@stub(r"^core::num::<impl u(8|16|32|64|128|size)>::(div_ceil|next_multiple_of)$")
def int_div_ceil(eng, st, site, func, target, args, dty):
    frame, bb, t = site
    x, c = args[0], args[1]
    if not (isinstance(x, VInt) and isinstance(c, VInt) and c.lin.is_const() and c.lin.c > 0):
        return None
    which = target["name"].rsplit("::", 1)[1]
    q, r = eng.divmod_const(st, x.lin, c.lin.c)
    out = []
    s0 = st.fork()
    if eng.add(s0, c_eq(r, Lin.const(0))):
        out.append((s0, VInt(x.ty, q if which == "div_ceil" else x.lin)))
    if eng.add(st, c_le(Lin.const(1), r)):
        if which == "div_ceil":
            out.append((st, VInt(x.ty, q + 1)))
        else:
            res = x.lin + Lin.const(c.lin.c) - r
            lo, hi = eng.int_range(x.ty)
            ok = eng.ent(st, c_le(res, Lin.const(hi)))
            eng.oblig("arith", frame, bb, eng.callee_label(func), ok, st, None if ok else "next_multiple_of may overflow", t.get("ln"))
            out.append((st, VInt(x.ty, res)))
    return out


@stub(r"^core::num::<impl [ui](8|16|32|64|128|size)>::(trailing_zeros|leading_zeros|count_ones)$")
def int_bit_counts(eng, st, site, func, target, args, dty):
    x = args[0]
    if isinstance(x, VInt) and x.lin.is_const() and x.lin.c >= 0:
        w, _sg = eng.int_info(x.ty)
        v = x.lin.c
        which = target["name"].rsplit("::", 1)[1]
        if which == "trailing_zeros":
            r = w if v == 0 else (v & -v).bit_length() - 1
        elif which == "leading_zeros":
            r = w - v.bit_length()
        else:
            r = bin(v).count("1")
        return [(st, eng.const_int(dty, r))]
    return None


@stub(r"^core::num::<impl u(8|16|32|64|128|size)>::wrapping_neg$")
def int_wrapping_neg(eng, st, site, func, target, args, dty):
    """0 -> 0, x -> 2^w - x"""
    x = args[0]
    if not isinstance(x, VInt):
        return None
    w, _sg = eng.int_info(x.ty)
    out = []
    s0 = st.fork()
    if eng.add(s0, c_eq(x.lin, Lin.const(0))):
        out.append((s0, eng.const_int(x.ty, 0)))
    if eng.add(st, c_le(Lin.const(1), x.lin)):
        out.append((st, VInt(x.ty, Lin.const(1 << w) - x.lin)))
    return out


# ------------------------------------------------------------------ strings

@stub(r"^<[ui](8|16|32|64|128|size) as std::string::ToString>::to_string$|^<T as std::string::ToString>::to_string$")
def int_to_string(eng, st, site, func, target, args, dty):
    """decimal rendering of an integer: a non-empty String of at most 40 octets, content not tracked"""
    v = args[0]
    if isinstance(v, VRef):
        v = eng.load(st, v.cell, v.path)
    if not isinstance(v, VInt):
        return None
    n = eng.new_int(eng.usize_ty(), "digits", 1, 40)
    return [(st, new_vec(eng, st, n.lin, (((n.lin, ("fmt", repr(v.lin)))),), None, None, eng.u8_ty()))]


@stub(r"^core::str::<impl str>::(strip_suffix|strip_prefix)$")
def str_strip(eng, st, site, func, target, args, dty):
    """Some(shorter str) or None; the pattern's length is known only for literal patterns"""
    s = as_slice(eng, st, args[0])
    if s is None:
        return None
    pat = args[1]
    k = None
    ps = as_slice(eng, st, pat) if not isinstance(pat, VInt) else None
    if ps is not None and ps.len.is_const():
        k = ps.len.c
    elif isinstance(pat, VInt):
        k = 1                      # a char pattern: at least one octet (ASCII: exactly one)
    out = []
    s1 = st.fork()
    cut = Lin.const(k) if k is not None else eng.new_int(eng.usize_ty(), "patlen", 1).lin
    if eng.add(s1, c_le(cut, s.len)):
        if target["name"].endswith("strip_suffix"):
            sub = VSlice(s.base, s.start, s.len - cut, s.elem, s.is_str, s.mut)
        else:
            sub = VSlice(s.base, s.start + cut, s.len - cut, s.elem, s.is_str, s.mut)
        out.append((s1, mk_option(eng, dty, True, sub)))
    out.append((st, mk_option(eng, dty, False)))
    return out


@stub(r"^core::str::<impl str>::chars$|^core::str::<impl str>::bytes$|^core::str::<impl str>::char_indices$")
def str_chars(eng, st, site, func, target, args, dty):
    s = as_slice(eng, st, args[0])
    if s is None:
        return None
    return [(st, VIter("chars" if not target["name"].endswith("bytes") else "slice", s.len if target["name"].endswith("bytes") else None,
                       Lin.const(0) if target["name"].endswith("bytes") else 0, s, None))]


@stub(r"<std::str::Chars<'a> as std::iter::Iterator>::count$")
def chars_count(eng, st, site, func, target, args, dty):
    """number of chars of a str: between ceil(len/4) and len; equal to len only for ASCII"""
    it = args[0]
    if not (isinstance(it, VIter) and it.kind == "chars" and isinstance(it.src, VSlice)):
        return None
    ln = it.src.len
    n = eng.new_int(eng.usize_ty(), "nchars", 0)
    st.cons.append(c_le(n.lin, ln))
    st.cons.append(c_le(ln, n.lin.scale(4)))
    return [(st, n)]


@stub(r"^std::iter::Iterator::partition$|std::iter::Iterator>::partition$")
def iter_partition(eng, st, site, func, target, args, dty):
    """(kept, rest): two vectors whose lengths add up to the number of items; which item went where is not tracked"""
    it = args[0]
    total = None
    if isinstance(it, VIter) and isinstance(it.pos, Lin) and it.kind in ("slice", "vec"):
        if it.kind == "slice":
            total = it.src.len - it.pos
        else:
            vv = st.cells.get(it.src)
            total = (vv.len - it.pos) if isinstance(vv, VVec) else None
    if total is None:
        return None
    probe = st.fork()
    eng.call_closure(probe, site, args[1], [VUnknown(None, eng.fresh("pitem"))])
    a = eng.new_int(eng.usize_ty(), "part_a", 0)
    b = eng.new_int(eng.usize_ty(), "part_b", 0)
    st.cons.append(c_eq(a.lin + b.lin, total))
    ety = None
    if dty is not None:
        tt = eng.T(dty)
        if tt["k"] == "tuple" and tt["of"]:
            vt = eng.T(tt["of"][0])
            if vt["k"] == "adt" and vt.get("args") and isinstance(vt["args"][0], int):
                ety = vt["args"][0]
    va = new_vec(eng, st, a.lin, None, None, None, ety)
    vb = new_vec(eng, st, b.lin, None, None, None, ety)
    st.emit(("partition", it.src if it.kind == "vec" else it.src.base, va.cell, vb.cell, site_info(site)))
    return [(st, VAdt(dty, Lin.const(0), {0: (va, vb)}))]
