"""lenflow: Reader/Writer trait contracts and models of the non-crate callees.

Every stub is a one-line reading of the std/md5/phf function it stands for; the
table is frozen here and listed in the evidence (trusted base)."""
import re
from lin import Lin, c_le, c_lt, c_eq, c_ne
from absval import *

ABS = frozenset(["abs"])

PANICKY = re.compile(
    r"(::unwrap$|::expect$|::unwrap_err$|::expect_err$|::unwrap_unchecked$|::index$|::index_mut$|panicking::|::split_at(_mut)?$|"
    r"::copy_from_slice$|::clone_from_slice$|::chunks_exact|"
    r"Vec::<.*>::(remove|insert|swap_remove|drain|split_off)$|::pow$|::abs$|div_euclid$|rem_euclid$|"
    r"String::(truncate|insert|insert_str|remove|split_off|drain|replace_range)$|<impl str>::(split_at|split_at_mut)$|"
    r"VecDeque::<.*>::(remove|insert|swap|range|drain)$|RefCell::<.*>::(borrow|borrow_mut)$|::step_by$|::chunks$|::windows$|"
    r"::swap$|::rotate_(left|right)$|::copy_within$|::first_chunk$|::last_chunk$|::from_utf8_unchecked$|"
    r"::get_unchecked(_mut)?$|::add$|::sub$|::offset$|::read$|::write$|::assume_init|transmute)")


def may_panic_name(name):
    return bool(PANICKY.search(name))


# ------------------------------------------------------------------ helpers

def deref(eng, st, v, depth=3):
    """follow references to the first non-reference value; returns (value, loc or None)"""
    loc = None
    while isinstance(v, VRef) and depth > 0:
        loc = (v.cell, v.path)
        v = eng.load(st, v.cell, v.path)
        depth -= 1
    return v, loc


def get_vec(eng, st, arg):
    """arg: &Vec / &mut Vec / Vec handle -> (cell, VVec) or (None, None)"""
    v = arg
    for _ in range(4):
        if isinstance(v, VRef):
            tgt = eng.load(st, v.cell, v.path)
            if isinstance(tgt, VVec):
                return v.cell, tgt
            v = tgt
        else:
            break
    return None, None


def as_slice(eng, st, arg):
    """view an argument as a byte/element region: VSlice"""
    v = arg
    for _ in range(4):
        if isinstance(v, VSlice):
            return v
        if isinstance(v, VRef):
            tgt = eng.load(st, v.cell, v.path)
            if isinstance(tgt, VVec):
                return VSlice(v.cell, Lin.const(0), tgt.len, elem=tgt.elem_ty, mut=v.mut)
            if isinstance(tgt, VArr):
                return VSlice(("loc", v.cell, v.path), Lin.const(0), Lin.const(tgt.n), mut=v.mut)
            if isinstance(tgt, VUnknown):
                nm = tgt.name or eng.fresh("s")
                return VSlice(("origin", nm), Lin.const(0), eng.len_sym("len(%s)" % nm))
            v = tgt
        else:
            break
    if isinstance(v, VUnknown):
        nm = v.name or eng.fresh("s")
        return VSlice(("origin", nm), Lin.const(0), eng.len_sym("len(%s)" % nm))
    return None


def slice_desc(eng, st, s):
    """provenance descriptor of a region"""
    if s is None:
        return ("?",)
    b = s.base
    if isinstance(b, tuple) and b and b[0] == "const":
        if s.start.is_const() and s.len.is_const():
            return ("const", tuple(b[1][s.start.c:s.start.c + s.len.c]))
        return ("constpart", b[1], s.start, s.len)
    if isinstance(b, tuple) and b and b[0] == "loc":
        tgt = eng.load(st, b[1], b[2])
        if isinstance(tgt, VArr):
            whole = s.start.is_const() and s.start.c == 0 and s.len.is_const() and s.len.c == tgt.n
            if tgt.elems is not None:
                if s.start.is_const() and s.len.is_const():
                    es = tgt.elems[s.start.c:s.start.c + s.len.c]
                    if all(isinstance(e, VInt) and e.lin.is_const() for e in es):
                        return ("const", tuple(e.lin.c for e in es))
                    return ("elems", tuple(es))
                return ("elems?",)
            if tgt.src is not None and whole:
                return tgt.src
            return ("arr", tgt.name, tgt.src, s.start, s.len)
        return ("loc?",)
    if isinstance(b, tuple) and b and b[0] == "origin":
        return ("sym", b[1], s.start, s.len)
    if isinstance(b, tuple) and b and b[0] == "rd":
        return ("wire", b[1], s.start, s.len)
    # vec cell
    tgt = st.cells.get(b)
    if isinstance(tgt, VVec):
        whole = s.start.is_const() and s.start.c == 0 and s.len == tgt.len
        if whole and tgt.segs is not None:
            if len(tgt.segs) == 1:
                return tgt.segs[0][1]
            return ("cat", tgt.segs)
        if tgt.segs is not None:
            # a region that coincides with whole segments is those segments
            pos = Lin.const(0)
            acc = []
            started = False
            tot = Lin.const(0)
            for sl, sd in tgt.segs:
                if not started and pos == s.start:
                    started = True
                if started:
                    if tot == s.len:
                        break
                    acc.append((sl, sd))
                    tot = tot + sl
                    if tot.is_const() and s.len.is_const() and tot.c > s.len.c:
                        acc = None
                        break
                pos = pos + sl
            if started and acc and tot == s.len:
                return acc[0][1] if len(acc) == 1 else ("cat", tuple(acc))
        part = _sub_octets(eng, st, tgt.segs, s.start, s.len)
        if part is not None:
            return part
        return ("vec", b, tgt.name, s.start, s.len, eng.region_state(st, b, tgt, s))
    return ("?", b)


def _sub_octets(eng, st, segs, start, ln):
    """a constant sub-range of a buffer whose leading segments are octets known one by one (constants, individually
    computed octets, to_be_bytes results): those octets"""
    if segs is None or not (start.is_const() and ln.is_const()) or ln.c > 64:
        return None
    octs = []
    need = start.c + ln.c
    for sl, sd in segs:
        if len(octs) >= need:
            break
        if not sl.is_const():
            return None
        if sd[0] == "const":
            octs.extend(eng.const_int(eng.u8_ty(), c) for c in sd[1])
        elif sd[0] == "elems":
            octs.extend(sd[1])
        elif sd[0] == "be" and isinstance(sd[1], VInt) and sd[2]:
            arr = VArr(sd[2], None, None, sd)
            octs.extend(eng.unknown_elem(st, arr, i) for i in range(sd[2]))
        else:
            return None
    if len(octs) < need:
        return None
    es = octs[start.c:need]
    if all(isinstance(e, VInt) and e.lin.is_const() for e in es):
        return ("const", tuple(e.lin.c for e in es))
    return ("elems", tuple(es))


def mk_option(eng, dty, some, val=None):
    if some:
        return VAdt(dty if dty is not None else "std::option::Option", Lin.const(1), {1: (val,)})
    return VAdt(dty if dty is not None else "std::option::Option", Lin.const(0), {0: ()})


def mk_result(eng, dty, ok, val):
    return VAdt(dty if dty is not None else "std::result::Result", Lin.const(0 if ok else 1), {(0 if ok else 1): (val,)})


def split_variants(eng, st, v, nvar=2):
    """case split on the variant of enum value v: list of (state, vidx, fields)"""
    if isinstance(v, VUnknown) and v.ty is not None:
        v = eng.symval(st, v.ty, v.name or eng.fresh("u"))
    if not isinstance(v, VAdt):
        out = []
        for i in range(nvar):
            s2 = st.fork()
            out.append((s2, i, None))
        return out
    if v.vidx.is_const():
        return [(st, v.vidx.c, eng.variant_fields(st, v, v.vidx.c))]
    n = eng.n_variants(v.ty) or nvar
    out = []
    for i in range(n):
        s2 = st.fork() if i < n - 1 else st
        if eng.add(s2, c_eq(v.vidx, Lin.const(i))):
            out.append((s2, i, eng.variant_fields(s2, v, i)))
    return out


def site_info(site):
    frame, bb, t = site
    return {"fn": frame.fn["name"], "bb": bb, "ln": t.get("ln"), "ctx": frame.ctxname}


def pre(eng, st, site, kind, label, c, what):
    """precondition obligation; afterwards the precondition is assumed. Returns False if the
    state is infeasible under the precondition."""
    frame, bb, t = site
    ok = eng.ent(st, c)
    detail = None if ok else what
    eng.oblig(kind, frame, bb, label, ok, st, detail, t.get("ln"))
    if ok:
        return True
    return eng.add(st, c)


# ------------------------------------------------------------------ Reader / Writer contracts

def reader_view(eng, st, arg):
    v, loc = deref(eng, st, arg, 2)
    if isinstance(v, VReader):
        return ("abs", v, loc)
    if isinstance(v, VAdt) and (eng.adt_name(v) or "").endswith("SliceReader"):
        fs = eng.variant_fields(st, v, 0)
        if fs and isinstance(fs[0], VSlice):
            return ("slice", v, loc)
    return None


def reader_L(view):
    kind, v, loc = view
    return v.L if kind == "abs" else v.variants[0][0].len


def reader_advance(eng, st, view, n):
    kind, v, loc = view
    if kind == "abs":
        nv = VReader(v.L - n, v.rid, (v.pos + n) if v.pos is not None else None)
    else:
        s = v.variants[0][0]
        nv = VAdt(v.ty, v.vidx, {0: (VSlice(s.base, s.start + n, s.len - n, s.elem, s.is_str, s.mut),)}, v.base)
    eng.store(st, loc[0], loc[1], nv)


def reader_region(view, n):
    kind, v, loc = view
    if kind == "abs":
        return VSlice(("rd", v.rid), v.pos if v.pos is not None else Lin.const(0), n)
    s = v.variants[0][0]
    return VSlice(s.base, s.start, n, s.elem)


def reader_id(view):
    kind, v, loc = view
    return v.rid if kind == "abs" else ("slice", v.variants[0][0].base)


READ_W = {"read_u8_unchecked": 1, "read_u16_be_unchecked": 2, "read_u32_be_unchecked": 4, "read_u64_be_unchecked": 8}
WRITE_W = {"write_u8": 1, "write_u16_be": 2, "write_u32_be": 4, "write_u64_be": 8}


def contract_call(eng, st, site, func, args, dty):
    item = func["item"]
    frame, bb, t = site
    label = eng.callee_label(func)
    uc = getattr(eng, "used_contracts", None)
    if uc is not None:
        # which contract entries the proof applies, and whether any call site may pass a zero size argument
        key = ("Reader" if func["trait"].endswith("Reader") else "Writer", item)
        zero = False
        if item in ("skip_bytes", "subreader", "bytes", "write_bytes", "write_bytes_at") and len(args) > 1:
            a1 = args[1]
            n1 = a1.lin if isinstance(a1, VInt) else (a1.len if isinstance(a1, VSlice) else None)
            if n1 is None:
                sl = as_slice(eng, st, a1)
                n1 = sl.len if sl is not None else None
            zero = n1 is None or not eng.ent(st, c_le(Lin.const(1), n1))
        uc[key] = uc.get(key, False) or zero
    if func["trait"].endswith("Reader"):
        view = reader_view(eng, st, args[0])
        if view is None:
            return None
        L = reader_L(view)
        rid = reader_id(view)
        us = eng.usize_ty()
        if item == "len":
            return [(st, VInt(us, L))]
        if item == "is_empty":
            return [(st, VBool(("atom", c_eq(L, Lin.const(0)))))]
        if item in READ_W:
            n = READ_W[item]
            if not pre(eng, st, site, "reader-pre", label, c_le(Lin.const(n), L),
                       "unchecked read of %d octet(s) but only %r remain (not proven >= %d)" % (n, L, n)):
                return []
            region = reader_region(view, Lin.const(n))
            reader_advance(eng, st, view, Lin.const(n))
            eng.counter += 1
            if view[0] == "abs":
                name = "w%d:%s" % (st.ntrace, item.split("_")[1])
            else:
                name = "be(%r)" % (slice_desc(eng, st, region),)
            val = eng.named_int(dty, name, bits_sym=True)
            st.emit(("read", rid, n, val, site_info(site), slice_desc(eng, st, region)))
            return [(st, val)]
        if item == "skip_bytes":
            n = args[1]
            if not isinstance(n, VInt):
                n = eng.top_int(us)
            if not pre(eng, st, site, "reader-pre", label, c_le(n.lin, L),
                       "skip of %r octets but only %r remain" % (n.lin, L)):
                return []
            reader_advance(eng, st, view, n.lin)
            st.emit(("skip", rid, n, site_info(site)))
            return [(st, UNIT)]
        if item == "subreader":
            n = args[1]
            if not isinstance(n, VInt):
                n = eng.top_int(us)
            if not pre(eng, st, site, "reader-pre", label, c_le(n.lin, L),
                       "sub-reader of %r octets but only %r remain" % (n.lin, L)):
                return []
            region = reader_region(view, n.lin)
            reader_advance(eng, st, view, n.lin)
            if view[0] == "abs":
                eng.counter += 1
                nrid = "%s/sub%d" % (rid, st.ntrace)
                nv = VReader(n.lin, nrid, Lin.const(0))
            else:
                nrid = rid
                v = view[1]
                nv = VAdt(v.ty, v.vidx, {0: (region,)}, None)
            st.emit(("sub", rid, n, nrid, site_info(site), region.start))
            return [(st, nv)]
        if item == "bytes":
            n = args[1]
            if not isinstance(n, VInt):
                n = eng.top_int(us)
            out = []
            s_ok = st.fork()
            if eng.add(s_ok, c_le(n.lin, L)):
                region = reader_region(view, n.lin)
                reader_advance(eng, s_ok, view, n.lin)
                s_ok.emit(("bytes", rid, n, site_info(site), True, region.start))
                out.append((s_ok, mk_option(eng, dty, True, region)))
            if eng.add(st, c_lt(L, n.lin)):
                # None: the contract only promises the reader does not grow
                kind, v, loc = view
                nl = eng.new_int(us, "Lafter", 0)
                st.cons.append(c_le(nl.lin, L))
                if kind == "abs":
                    eng.store(st, loc[0], loc[1], VReader(nl.lin, v.rid, None))
                else:
                    s = v.variants[0][0]
                    eng.store(st, loc[0], loc[1], VAdt(v.ty, v.vidx, {0: (VSlice(s.base, eng.top_int(us).lin, nl.lin, s.elem),)}, v.base))
                st.emit(("bytes", rid, n, site_info(site), False, None))
                out.append((st, mk_option(eng, dty, False)))
            return out
        return None
    # ---- Writer
    view = writer_view(eng, st, args[0])
    if view is None:
        return None
    kind, v, loc, veccell = view
    W = v.W if kind == "abs" else st.cells[veccell].len
    wid = v.wid if kind == "abs" else ("vec", veccell)
    us = eng.usize_ty()
    # positions of a caller-supplied writer are absolute; a writer created locally starts at 0
    tnt = ABS if kind == "abs" else None
    if item == "len":
        return [(st, VInt(us, W, None, None, tnt))]
    if item == "is_empty":
        return [(st, VBool(("atom", c_eq(W, Lin.const(0))), tnt))]
    if item in WRITE_W:
        n = WRITE_W[item]
        val = args[1]
        writer_append(eng, st, view, Lin.const(n), ("be", val, n))
        st.emit(("w", wid, item, val, site_info(site)))
        hook = eng.hooks.get("w")
        if hook and not eng.mute:
            hook(st, site, wid, item, val)
        return [(st, UNIT)]
    if item == "write_bytes":
        s = as_slice(eng, st, args[1])
        if s is None:
            return None
        d = slice_desc(eng, st, s)
        writer_append(eng, st, view, s.len, d)
        st.emit(("w", wid, "bytes", (s.len, d), site_info(site)))
        hook = eng.hooks.get("w")
        if hook and not eng.mute:
            hook(st, site, wid, "bytes", (s.len, d))
        return [(st, UNIT)]
    if item == "write_bytes_at":
        s = as_slice(eng, st, args[1])
        off = args[2]
        if s is None or not isinstance(off, VInt):
            return None
        d = slice_desc(eng, st, s)
        # contract: inside [0, W) or refused (panic).  The refusing side ends the path.
        c = c_le(off.lin + s.len, W)
        ok = eng.ent(st, c)
        eng.oblig("writer-pre", frame, bb, label, ok, st,
                  None if ok else "overwrite [%r, +%r) not proven inside the %r octets written" % (off.lin, s.len, W), t.get("ln"))
        st.emit(("wat", wid, (s.len, d), off, site_info(site), ok, W))
        hook = eng.hooks.get("wat")
        if hook and not eng.mute:
            hook(st, site, wid, s.len, d, off, W)
        if not ok and not eng.add(st, c):
            return []
        if kind == "vec":
            vv = st.cells[veccell]
            st.cells[veccell] = VVec(vv.len, patch_segs(eng, st, vv.segs, off.lin, s.len, d), None, vv.name, vv.elem_ty, vv.marks)
        return [(st, UNIT)]
    return None


def patch_segs(eng, st, segs, off, ln, d):
    """overwrite [off, off+ln) in a segment list when it coincides with whole segments"""
    if segs is None:
        return None
    pos = Lin.const(0)
    out = []
    i = 0
    n = len(segs)
    while i < n:
        sl, sd = segs[i]
        if pos == off or (not (pos - off).t and (pos - off).c == 0):
            # collect segments covering exactly ln
            tot = Lin.const(0)
            j = i
            while j < n and not (tot == ln):
                tot = tot + segs[j][0]
                j += 1
                if tot.is_const() and ln.is_const() and tot.c > ln.c:
                    # split last segment if constant sized 'be' / const
                    return None
            if tot == ln:
                out.append((ln, d))
                out.extend(segs[j:])
                return tuple(out)
            return None
        out.append((sl, sd))
        pos = pos + sl
        i += 1
    return None


def writer_view(eng, st, arg):
    v, loc = deref(eng, st, arg, 2)
    if isinstance(v, VWriter):
        return ("abs", v, loc, None)
    if isinstance(v, VAdt) and (eng.adt_name(v) or "").endswith("VecWriter"):
        fs = eng.variant_fields(st, v, 0)
        if fs and isinstance(fs[0], VRef) and isinstance(st.cells.get(fs[0].cell), VVec):
            return ("vec", v, loc, fs[0].cell)
    return None


def writer_append(eng, st, view, n, desc):
    kind, v, loc, veccell = view
    if kind == "abs":
        eng.store(st, loc[0], loc[1], VWriter(v.W + n, v.wid))
    else:
        vv = st.cells[veccell]
        segs = None if vv.segs is None else vv.segs + ((n, desc),)
        st.cells[veccell] = VVec(vv.len + n, segs, None, vv.name, vv.elem_ty, vv.marks)


# ------------------------------------------------------------------ stub registry

STUBS = []


def stub(pattern):
    rx = re.compile(pattern)

    def deco(f):
        STUBS.append((rx, f))
        return f
    return deco


_stub_cache = {}


def stub_call(eng, st, site, func, target, args, dty):
    name = target["name"]
    f = _stub_cache.get(name, 0)
    if f == 0:
        f = None
        for rx, fn in STUBS:
            if rx.search(name):
                f = fn
                break
        if f is None and name != func["name"]:
            for rx, fn in STUBS:
                if rx.search(func["name"]):
                    f = fn
                    break
        _stub_cache[name] = f
    if f is None:
        return None
    eng.stats["stub:" + f.__name__] += 1
    return f(eng, st, site, func, target, args, dty)


from stubs2 import *   # noqa: E402,F401  (registers the std models)
import stubs3           # noqa: E402,F401  (Option/Result combinators)
import stubs4           # noqa: E402,F401  (round-4 additions)
