"""E4: whole-crate call graph over resolved callees, reachability, recursion, effect atoms."""
import re


def _walk_ops(x, out):
    """collect fn constants and closure aggregates from a MIR json subtree"""
    if isinstance(x, dict):
        if "fn" in x and isinstance(x["fn"], dict) and "key" in x["fn"]:
            out.append(("fnconst", x["fn"]))
        if x.get("agg") == "closure":
            out.append(("closure", x["key"]))
        for v in x.values():
            _walk_ops(v, out)
    elif isinstance(x, list):
        for v in x:
            _walk_ops(v, out)


class CallGraph:
    def __init__(self, fx):
        self.fx = fx
        self.edges = {}       # fn key -> set of callee keys (crate-local keys or external names)
        self.ext_calls = {}   # fn key -> list of (external name, line, from_expansion)
        self.impls_of_trait_item = {}
        for f in fx.raw["fns"]:
            ti = f.get("trait_item")
            if ti:
                self.impls_of_trait_item.setdefault(ti, []).append(f["key"])
        for f in fx.raw["fns"]:
            self._scan(f)

    def _scan(self, f):
        key = f["key"]
        es = self.edges.setdefault(key, set())
        ext = self.ext_calls.setdefault(key, [])
        bodies = [f["body"]] + list(f.get("promoted", []))
        for body in bodies:
            for b in body["blocks"]:
                if b["cleanup"]:
                    continue
                found = []
                _walk_ops(b["stmts"], found)
                t = b["term"]
                if t["t"] == "call":
                    _walk_ops(t["args"], found)
                    fn = t["func"]
                    if "key" in fn:
                        self._add_callee(es, ext, fn, t.get("ln"), t.get("exp"))
                    else:
                        ext.append(("<indirect call>", t.get("ln"), t.get("exp")))
                for kind, x in found:
                    if kind == "closure":
                        es.add(x)
                    else:
                        self._add_callee(es, ext, x, None, False, ref_only=True)

    def _add_callee(self, es, ext, fn, ln, exp, ref_only=False):
        r = fn.get("resolved")
        if r is not None and r.get("local") and r["key"] in self.fx.fns:
            es.add(r["key"])
            return
        if fn.get("local") and fn["key"] in self.fx.fns and not fn.get("trait"):
            es.add(fn["key"])
            return
        if fn.get("local") and fn.get("trait"):
            # unresolved call of a crate trait method: fan out to all impls (+ provided body)
            if fn["key"] in self.fx.fns:
                es.add(fn["key"])
            for k in self.impls_of_trait_item.get(fn["key"], []):
                es.add(k)
            return
        name = (r or fn)["name"]
        ext.append((name, ln, exp))

    def reachable(self, roots):
        seen = set()
        work = list(roots)
        while work:
            k = work.pop()
            if k in seen:
                continue
            seen.add(k)
            work.extend(self.edges.get(k, ()))
        return seen

    def cycles(self, nodes):
        """list of SCCs with more than one node or a self loop, restricted to nodes"""
        index = {}
        low = {}
        stack = []
        on = set()
        out = []
        counter = [0]
        import sys
        sys.setrecursionlimit(10000)

        def strong(v):
            index[v] = low[v] = counter[0]
            counter[0] += 1
            stack.append(v)
            on.add(v)
            for w in self.edges.get(v, ()):
                if w not in nodes:
                    continue
                if w not in index:
                    strong(w)
                    low[v] = min(low[v], low[w])
                elif w in on:
                    low[v] = min(low[v], index[w])
            if low[v] == index[v]:
                comp = []
                while True:
                    w = stack.pop()
                    on.discard(w)
                    comp.append(w)
                    if w == v:
                        break
                if len(comp) > 1 or v in self.edges.get(v, ()):
                    out.append(comp)
        for v in nodes:
            if v not in index:
                strong(v)
        return out

    def path_to(self, root, pred):
        """shortest call path from root to a function satisfying pred(key)"""
        from collections import deque
        prev = {root: None}
        dq = deque([root])
        while dq:
            k = dq.popleft()
            if pred(k):
                p = []
                while k is not None:
                    p.append(k)
                    k = prev[k]
                return list(reversed(p))
            for w in sorted(self.edges.get(k, ())):
                if w not in prev:
                    prev[w] = k
                    dq.append(w)
        return None


EFFECT_CLASSES = [
    ("io", re.compile(r"^std::io::|^std::fs::|^std::net::|^std::os::|^std::process::|^std::env::|_print$|_eprint$|^std::io$|^std::panicking::|^libc::")),
    ("time", re.compile(r"^std::time::|^core::time::|Instant|SystemTime")),
    ("thread", re.compile(r"^std::thread::|^std::sync::|^core::sync::atomic|^std::cell::|^core::cell::|thread_local|^std::sys::")),
    ("random", re.compile(r"^rand::|^rand_core::|getrandom|RandomState|^std::hash::random|^std::collections::hash")),
    ("uninit", re.compile(r"::set_len$|MaybeUninit.*::assume_init|^std::mem::uninitialized$|^core::mem::uninitialized$|^std::mem::zeroed$|^std::alloc::alloc$|^alloc::alloc::alloc$")),
    ("reflect", re.compile(r"type_id|^std::any::|^core::any::|size_of_val|^std::mem::transmute|^core::intrinsics::transmute|type_name")),
    ("alloc_addr", re.compile(r"::addr$|expose_provenance|::as_ptr as usize|::align_to(_mut)?$|::align_offset$|::is_aligned(_to)?$")),
]


def classify_external(name):
    out = []
    for cls, rx in EFFECT_CLASSES:
        if rx.search(name):
            out.append(cls)
    return out
