"""more std models (round-4 lessons): small functions that realistic rewrites reach for.  Every model here removes an
`unmodelled callee` (which would make a failing obligation `undecided`) and a possible false alarm."""
from lin import Lin, c_le, c_lt, c_eq, c_ne
from absval import *
from stubs import (stub, deref, get_vec, as_slice, slice_desc, mk_option, mk_result, split_variants,
                   site_info, pre)
from stubs2 import new_vec, usz


def _int(eng, st, v):
    for _ in range(2):
        if isinstance(v, VRef):
            v = eng.load(st, v.cell, v.path)
    return v if isinstance(v, VInt) else None


# ------------------------------------------------------------------ conversions

@stub(r"<impl std::convert::From<bool> for [ui](8|16|32|64|128|size)>::from$")
def bool_to_int(eng, st, site, func, target, args, dty):
    v = args[0]
    if isinstance(v, VRef):
        v = eng.load(st, v.cell, v.path)
    if isinstance(v, VBool):
        return [(st, eng.bool_to_int(st, v, dty))]
    return None


@stub(r"<impl std::convert::From<u8> for char>::from$")
def u8_to_char(eng, st, site, func, target, args, dty):
    v = _int(eng, st, args[0])
    if v is None:
        return [(st, eng.top_int(dty))]
    return [(st, VInt(dty, v.lin, v.mask, None, v.taint))]


@stub(r"^std::string::String::from_utf8$|^alloc::string::String::from_utf8$")
def string_from_utf8(eng, st, site, func, target, args, dty):
    """Ok(the same octets as a String) or Err(FromUtf8Error): validity is a property of the content"""
    cell, v = get_vec(eng, st, args[0])
    if v is None:
        return None
    s_ok = st.fork()
    sl = VSlice(cell, Lin.const(0), v.len, elem=eng.u8_ty())
    d = slice_desc(eng, st, sl)
    s_ok.emit(("utf8", d, True, site_info(site)))
    st.emit(("utf8", d, False, site_info(site)))
    return [(s_ok, mk_result(eng, dty, True, args[0])), (st, mk_result(eng, dty, False, VUnknown(None, eng.fresh("utf8err"))))]


@stub(r"^core::str::<impl str>::as_bytes$")
def str_as_bytes(eng, st, site, func, target, args, dty):
    s = as_slice(eng, st, args[0])
    if s is None:
        return None
    return [(st, VSlice(s.base, s.start, s.len, s.elem, False, s.mut))]


@stub(r"^core::str::<impl str>::is_empty$")
def str_is_empty(eng, st, site, func, target, args, dty):
    s = as_slice(eng, st, args[0])
    if s is None:
        return None
    return [(st, VBool(("atom", c_eq(s.len, Lin.const(0)))))]


@stub(r"^core::str::<impl str>::is_char_boundary$")
def str_is_char_boundary(eng, st, site, func, target, args, dty):
    s = as_slice(eng, st, args[0])
    i = _int(eng, st, args[1])
    if s is None or i is None:
        return None
    if eng.ent(st, c_eq(i.lin, Lin.const(0))) or eng.ent(st, c_eq(i.lin, s.len)):
        return [(st, TRUE)]
    if eng.ent(st, c_lt(s.len, i.lin)):
        return [(st, FALSE)]
    return [(st, VBool(("sym", eng.fresh("charboundary"))))]


@stub(r"^std::option::Option::<T>::as_deref$|^std::option::Option::<T>::as_deref_mut$")
def option_as_deref(eng, st, site, func, target, args, dty):
    a = args[0]
    if not isinstance(a, VRef):
        return None
    v = eng.load(st, a.cell, a.path)
    if isinstance(v, VUnknown) and v.ty is not None:
        v = eng.symval(st, v.ty, v.name or eng.fresh("u"))
        eng.store(st, a.cell, a.path, v)
    out = []
    for s2, vi, fs in split_variants(eng, st, v):
        if vi == 1:
            inner = VRef(a.cell, a.path + (("f", 1, 0),), a.mut)
            sl = as_slice(eng, s2, inner)
            out.append((s2, mk_option(eng, dty, True, sl if sl is not None else inner)))
        else:
            out.append((s2, mk_option(eng, dty, False)))
    return out


# ------------------------------------------------------------------ comparisons

@stub(r"<impl std::cmp::Ord for [ui](8|16|32|64|128|size)>::cmp$|<impl std::cmp::PartialOrd for [ui](8|16|32|64|128|size)>::partial_cmp$")
def int_cmp(eng, st, site, func, target, args, dty):
    """Ordering::{Less, Equal, Greater} (variant indices 0, 1, 2)"""
    a, b = _int(eng, st, args[0]), _int(eng, st, args[1])
    if a is None or b is None:
        return None
    partial = target["name"].endswith("partial_cmp")
    oty = dty
    if partial and dty is not None:
        t = eng.T(dty)
        oty = t["args"][0] if t["k"] == "adt" and t.get("args") and isinstance(t["args"][0], int) else None
    out = []
    for idx, c in ((0, c_lt(a.lin, b.lin)), (1, c_eq(a.lin, b.lin)), (2, c_lt(b.lin, a.lin))):
        s2 = st.fork()
        if eng.add(s2, c):
            o = VAdt(oty if oty is not None else "std::cmp::Ordering", Lin.const(idx), {idx: ()})
            out.append((s2, mk_option(eng, dty, True, o) if partial else o))
    return out


@stub(r"^core::slice::<impl \[T\]>::contains$")
def slice_contains(eng, st, site, func, target, args, dty):
    """membership in a small slice of known integers: a disjunction of equalities"""
    s = as_slice(eng, st, args[0])
    x = _int(eng, st, args[1])
    if s is None or x is None or not s.len.is_const() or s.len.c > 16:
        return None
    f = None
    for i in range(s.len.c):
        from stubs2 import elem_ref
        r = elem_ref(eng, st, s, Lin.const(i))
        e = eng.load(st, r.cell, r.path)
        if not isinstance(e, VInt):
            return None
        g = ("atom", c_eq(x.lin, e.lin))
        f = g if f is None else ("or", f, g)
    return [(st, VBool(f if f is not None else ("const", False)))]


# ------------------------------------------------------------------ arrays / vectors

@stub(r"^std::array::from_fn$|^core::array::from_fn$")
def array_from_fn(eng, st, site, func, target, args, dty):
    """[f(0), f(1), .., f(N-1)], evaluated in order"""
    if dty is None:
        return None
    t = eng.T(dty)
    n = eng.array_len(site[0], t) if t["k"] == "array" else None
    if n is None or n > 16:
        return None
    states = [(st, [])]
    for i in range(n):
        nxt = []
        for s2, acc in states:
            for s3, r in eng.call_closure(s2, site, args[0], [VInt(eng.usize_ty(), Lin.const(i))]):
                nxt.append((s3, acc + [r]))
        states = nxt
        if len(states) > 64:
            return None
    return [(s2, VArr(n, tuple(acc))) for s2, acc in states]


@stub(r"^std::vec::Vec::<T, A>::resize$")
def vec_resize(eng, st, site, func, target, args, dty):
    cell, v = get_vec(eng, st, args[0])
    n = _int(eng, st, args[1])
    if v is None or n is None:
        return None
    out = []
    s_grow = st.fork()
    if eng.add(s_grow, c_le(v.len, n.lin)):
        segs = None
        if v.segs is not None:
            fill = args[2] if len(args) > 2 else None
            d = ("fill", fill.lin.c) if isinstance(fill, VInt) and fill.lin.is_const() else ("fill", "?")
            segs = tuple(v.segs) + (((n.lin - v.len), d),)
        s_grow.cells[cell] = VVec(n.lin, segs, None, v.name, v.elem_ty)
        out.append((s_grow, UNIT))
    if eng.add(st, c_lt(n.lin, v.len)):
        st.cells[cell] = VVec(n.lin, None, None, v.name, v.elem_ty)
        out.append((st, UNIT))
    return out


# ------------------------------------------------------------------ iterators

@stub(r"^std::iter::from_fn$|^core::iter::from_fn$")
def iter_from_fn(eng, st, site, func, target, args, dty):
    return [(st, VIter("from_fn", None, 0, None, args[0]))]


@stub(r"^std::iter::successors$|^core::iter::successors$")
def iter_successors(eng, st, site, func, target, args, dty):
    return [(st, VIter("successors", args[0], 0, None, args[1]))]


@stub(r"^std::iter::Iterator::map_while$|std::iter::Iterator>::map_while$")
def iter_map_while(eng, st, site, func, target, args, dty):
    import stubs3
    it = stubs3._as_iter(eng, st, args[0])
    if it is None:
        return None
    return [(st, VIter("map_while", None, 0, it, args[1]))]


@stub(r"^std::iter::Iterator::find$|std::iter::Iterator>::find$")
def iter_find(eng, st, site, func, target, args, dty):
    return eng.call_local(st, site, "synth::find", [args[0], args[1]], tag="find")


# ------------------------------------------------------------------ slices taken apart, vectors shortened

@stub(r"^core::slice::<impl \[T\]>::split_(first|last)(_mut)?$")
def slice_split_first(eng, st, site, func, target, args, dty):
    """Some((&s[0], &s[1..])) / Some((&s[n-1], &s[..n-1])) for a non-empty slice, None for an empty one"""
    from stubs2 import elem_ref
    s = as_slice(eng, st, args[0])
    if s is None:
        return None
    first = "split_first" in target["name"]
    out = []
    s0 = st.fork()
    if eng.add(s0, c_eq(s.len, Lin.const(0))):
        out.append((s0, mk_option(eng, dty, False)))
    if eng.add(st, c_le(Lin.const(1), s.len)):
        if first:
            e = elem_ref(eng, st, s, Lin.const(0))
            rest = VSlice(s.base, s.start + 1, s.len - 1, s.elem, s.is_str, s.mut)
        else:
            e = elem_ref(eng, st, s, s.len - 1)
            rest = VSlice(s.base, s.start, s.len - 1, s.elem, s.is_str, s.mut)
        out.append((st, mk_option(eng, dty, True, VAdt(None, Lin.const(0), {0: (e, rest)}))))
    return out


@stub(r"^core::slice::<impl \[T\]>::last(_mut)?$|^core::slice::<impl \[T\]>::first_mut$")
def slice_last(eng, st, site, func, target, args, dty):
    from stubs2 import elem_ref
    s = as_slice(eng, st, args[0])
    if s is None:
        return None
    out = []
    s0 = st.fork()
    if eng.add(s0, c_eq(s.len, Lin.const(0))):
        out.append((s0, mk_option(eng, dty, False)))
    if eng.add(st, c_le(Lin.const(1), s.len)):
        idx = Lin.const(0) if "first" in target["name"] else s.len - 1
        out.append((st, mk_option(eng, dty, True, elem_ref(eng, st, s, idx))))
    return out


@stub(r"^std::vec::Vec::<T, A>::(remove|swap_remove)$")
def vec_remove(eng, st, site, func, target, args, dty):
    """v.remove(i) / v.swap_remove(i): element i (panics unless i < len); the vector is one shorter.  What is left is
    described only when the element taken is the last one; otherwise the content is a new, unknown arrangement (for
    swap_remove a reordered one - recorded as an event, rules about ordered lists look for it)."""
    frame, bb, t = site
    cell, v = get_vec(eng, st, args[0])
    i = _int(eng, st, args[1])
    if v is None or i is None:
        return None
    if not pre(eng, st, site, "bounds", eng.callee_label(func), c_le(i.lin + 1, v.len),
               "%s(%r) on a vector of %r elements" % (target["name"].rsplit("::", 1)[1], i.lin, v.len)):
        return []
    item = eng.unknown_elem(st, v, i.lin)
    is_last = eng.ent(st, c_eq(i.lin + 1, v.len))
    swap = target["name"].endswith("swap_remove")
    st.emit(("vec_take", cell, "swap_remove" if swap else "remove", i.lin, is_last, site_info(site)))
    if is_last:
        st.cells[cell] = VVec(v.len - 1, None, None, v.name, v.elem_ty, v.marks)
    else:
        st.cells[cell] = VVec(v.len - 1, None, None, (v.name or "vec") + "'", v.elem_ty, None)
    return [(st, item)]


@stub(r"^std::vec::Vec::<T, A>::pop$")
def vec_pop(eng, st, site, func, target, args, dty):
    cell, v = get_vec(eng, st, args[0])
    if v is None:
        return None
    out = []
    s0 = st.fork()
    if eng.add(s0, c_eq(v.len, Lin.const(0))):
        out.append((s0, mk_option(eng, dty, False)))
    if eng.add(st, c_le(Lin.const(1), v.len)):
        item = eng.unknown_elem(st, v, v.len - 1)
        st.emit(("vec_take", cell, "pop", v.len - 1, True, site_info(site)))
        st.cells[cell] = VVec(v.len - 1, None, None, v.name, v.elem_ty, v.marks)
        out.append((st, mk_option(eng, dty, True, item)))
    return out
