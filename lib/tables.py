"""E3: finite tables extracted from facts / abstract execution."""
from absval import *
from lin import Lin, c_eq


def phf_entries(fx, static_key):
    s = fx.statics.get(static_key)
    if s is None or not s.get("init"):
        return None
    init = s["init"]
    if init.get("h") != "struct":
        return None
    for name, e in init["fields"]:
        if name == "entries":
            while e.get("h") in ("addr_of", "cast"):
                e = e["e"]
            if e.get("h") != "array":
                return None
            rows = []
            for t in e["es"]:
                if t.get("h") != "tup" or len(t["es"]) != 2:
                    return None
                k, v = t["es"]
                if k.get("h") != "int" or v.get("h") != "path":
                    return None
                rows.append((k["v"], v["res"].get("ctor_item") or v["res"]["name"].split("::")[-1]))
            return rows
    return None


def variant_name(eng, v):
    """name of the (constant) variant of enum value v, or None"""
    if isinstance(v, VAdt) and v.vidx.is_const():
        adt, t = eng.adt_info(v.ty)
        if adt is not None and v.vidx.c < len(adt["variants"]):
            return adt["variants"][v.vidx.c]["name"]
    return None


def pinned(eng, st, lin):
    """the single integer value lin takes in st, or None"""
    if lin.is_const():
        return lin.c
    lo, hi = eng.bounds(st, lin)
    if lo is not None and lo == hi:
        return lo
    return None


def enum_value(eng, ty, idx):
    return VAdt(ty, Lin.const(idx), {idx: ()})


def first_read(st):
    for e in st.events():
        if e[0] == "read":
            return e[3]
    return None
