"""lenflow: memory model (cells, places, projections) and generic child access."""
from lin import Lin, c_le, c_lt, c_eq
from absval import *


def children(v):
    """ordered list of (key, child) for composite values"""
    out = []
    if isinstance(v, VAdt):
        if not v.vidx.is_const():
            out.append((("d",), VInt(None, v.vidx)))
        for vi in sorted(v.variants):
            for fi, f in enumerate(v.variants[vi]):
                out.append((("f", vi, fi), f))
    elif isinstance(v, VVec):
        out.append((("len",), VInt(None, v.len)))
        out.append((("content",), VUnknown(None, "content")))
        if v.elems is not None:
            for i, e in enumerate(v.elems):
                out.append((("e", i), e))
    elif isinstance(v, VReader):
        out.append((("L",), VInt(None, v.L)))
        if v.pos is not None:
            out.append((("pos",), VInt(None, v.pos)))
    elif isinstance(v, VWriter):
        out.append((("W",), VInt(None, v.W)))
    elif isinstance(v, VSlice):
        out.append((("start",), VInt(None, v.start)))
        out.append((("slen",), VInt(None, v.len)))
    elif isinstance(v, VArr):
        if v.elems is not None:
            for i, e in enumerate(v.elems):
                out.append((("e", i), e))
    elif isinstance(v, VIter):
        if isinstance(v.pos, Lin):
            out.append((("ipos",), VInt(None, v.pos)))
            if isinstance(v.items, Lin):
                out.append((("ilen",), VInt(None, v.items)))
        if isinstance(v.src, VIter) or (isinstance(v.src, VAdt) and v.kind in ("take", "enumerate", "copied", "map", "filter", "filter_map", "flatten", "map_while")):
            out.append((("isrc",), v.src))
        elif v.kind in ("zip2", "chain2"):
            for i_, x_ in enumerate(v.src):
                if x_ is not None:
                    out.append((("isrc", i_), x_))
        elif v.kind in ("slice", "chunks") and isinstance(v.src, VSlice):
            out.append((("isl",), v.src))
        if v.kind == "successors":
            out.append((("ist",), v.items))       # the pending Option<T>
    return out


def with_child(v, key, nv):
    k = key[0]
    if isinstance(v, VAdt):
        if k == "d":
            return VAdt(v.ty, nv.lin, v.variants, v.base)
        _, vi, fi = key
        fs = list(v.variants[vi])
        fs[fi] = nv
        vs = dict(v.variants)
        vs[vi] = tuple(fs)
        return VAdt(v.ty, v.vidx, vs, v.base)
    if isinstance(v, VVec):
        if k == "len":
            return VVec(nv.lin, v.segs, v.elems, v.name, v.elem_ty, v.marks)
        if k == "content":
            return VVec(v.len, None, None, (v.name or "vec") + "~", v.elem_ty, None)
        es = list(v.elems)
        es[key[1]] = nv
        return VVec(v.len, v.segs, tuple(es), v.name, v.elem_ty, v.marks)
    if isinstance(v, VReader):
        if k == "L":
            return VReader(nv.lin, v.rid, v.pos)
        return VReader(v.L, v.rid, nv.lin)
    if isinstance(v, VWriter):
        return VWriter(nv.lin, v.wid)
    if isinstance(v, VSlice):
        if k == "start":
            return VSlice(v.base, nv.lin, v.len, v.elem, v.is_str, v.mut)
        return VSlice(v.base, v.start, nv.lin, v.elem, v.is_str, v.mut)
    if isinstance(v, VArr):
        es = list(v.elems)
        es[key[1]] = nv
        return VArr(v.n, tuple(es), v.name, v.src)
    if isinstance(v, VIter) and k == "isrc":
        if len(key) == 1:
            return VIter(v.kind, v.items, v.pos, nv, v.extra)
        src = list(v.src)
        src[key[1]] = nv
        return VIter(v.kind, v.items, v.pos, tuple(src), v.extra)
    if isinstance(v, VIter) and k == "ist":
        return VIter(v.kind, nv, v.pos, v.src, v.extra)
    if isinstance(v, VIter) and k == "isl":
        return VIter(v.kind, v.items, v.pos, nv, v.extra)
    if isinstance(v, VIter) and k == "ipos":
        return VIter(v.kind, v.items, nv.lin, v.src, v.extra)
    if isinstance(v, VIter) and k == "ilen":
        return VIter(v.kind, nv.lin, v.pos, v.src, v.extra)
    raise Abort("with_child %r %r" % (v, key))


class MemMixin:
    # a location is (cell, path); path elements:
    #   ('f', variant_idx, field_idx)   field of an Adt/tuple/closure env
    #   ('e', index)                    element with constant index (arrays / small vecs)
    #   ('ei', Lin)                     element with symbolic index

    def get_cell(self, st, cell):
        v = st.cells.get(cell)
        if v is None:
            if isinstance(cell, tuple) and cell and cell[0] == "obj":
                raise Abort("missing named cell %r" % (cell,))
            return VUnknown(None, self.fresh("uninit"))
        return v

    def load(self, st, cell, path):
        v = self.get_cell(st, cell)
        for el in path:
            v = self.project(st, v, el)
        return v

    def project(self, st, v, el):
        k = el[0]
        if k == "f":
            _, vi, fi = el[:3]
            if isinstance(v, VUnknown):
                fty = el[3] if len(el) > 3 else None
                if fty is not None:
                    return self.symval(st, fty, "%s.%d.%d" % (v.name or self.fresh("u"), vi, fi))
                return VUnknown(None, "%s.%d.%d" % (v.name, vi, fi))
            if isinstance(v, VAdt):
                fs = self.variant_fields(st, v, vi)
                if fs is None or fi >= len(fs):
                    fty = el[3] if len(el) > 3 else None
                    nm = "%s.%d.%d" % (v.base or "anon", vi, fi)
                    return self.symval(st, fty, nm) if fty is not None else VUnknown(None, nm)
                return fs[fi]
            if isinstance(v, VClosure):
                return v.upvars[fi]
            if isinstance(v, VDigest) and fi == 0:
                # md5::Digest(pub [u8; 16]): the same opaque, provenance-carrying octets that Deref hands out
                return VArr(16, None, v.did, ("digest", v.did))
            if isinstance(v, VRef) and fi == 0:
                # Box<T>.0 / Unique / NonNull wrappers: stay on the pointer
                return v
            if isinstance(v, VVec):
                return VUnknown(None, self.fresh("vecfield"))
            fty = el[3] if len(el) > 3 else None
            if fty is not None:
                return self.symval(st, fty, self.fresh("pf"))
            return VUnknown(None, self.fresh("pf"))
        if k == "e":
            i = el[1]
            if isinstance(v, (VArr, VVec)) and v.elems is not None and i < len(v.elems):
                return v.elems[i]
            return self.unknown_elem(st, v, i)
        if k == "ei":
            if isinstance(v, (VArr, VVec)) and v.elems is not None and el[1].is_const():
                i = el[1].c
                if 0 <= i < len(v.elems):
                    return v.elems[i]
            return self.unknown_elem(st, v, el[1])
        raise Abort("project %r" % (el,))

    def unknown_elem(self, st, v, idx=None):
        ety = getattr(v, "elem_ty", None)
        if isinstance(v, VVec) and ety is not None and idx is not None and v.name and self.T(ety)["k"] == "adt":
            # deterministic symbolic element: repeated reads of the same element agree
            return self.symval(st, ety, "%s[%s]" % (v.name, idx))
        if isinstance(v, VVec) and v.name and idx is not None and (ety is None or self.T(ety)["k"] == "int"):
            nm = "%s[%r]" % (v.name, idx)
            if not hasattr(self, "elem_syms"):
                self.elem_syms = {}
            self.elem_syms[nm] = (v.name, idx if isinstance(idx, Lin) else Lin.const(idx), ("vec", v.name))
            return self.named_int(ety if ety is not None else self.u8_ty(), nm)
        if isinstance(v, VArr) and v.src is not None and v.src[0] == "be" and isinstance(v.src[1], VInt) and v.src[2] \
                and (isinstance(idx, int) or (isinstance(idx, Lin) and idx.is_const())):
            # octet i of x.to_be_bytes(): the base-256 digit of x
            i = idx if isinstance(idx, int) else idx.c
            n = v.src[2]
            lo, _hi = self.bounds(st, v.src[1].lin)
            if 0 <= i < n and lo is not None and lo >= 0:
                q = v.src[1].lin
                for _ in range(n - 1 - i):
                    q, _r = self.divmod_const(st, q, 256)
                _lo, hi = self.bounds(st, q)
                if hi is not None and hi <= 255:
                    return VInt(self.u8_ty(), q)
                _q, r = self.divmod_const(st, q, 256)
                return VInt(self.u8_ty(), r)
        if isinstance(v, VArr) and v.name and idx is not None:
            # deterministic, provenance-carrying element of an opaque array (e.g. an MD5 digest)
            nm = "%s[%r]" % (v.name, idx)
            if not hasattr(self, "elem_syms"):
                self.elem_syms = {}
            self.elem_syms[nm] = (v.name, idx if isinstance(idx, Lin) else Lin.const(idx), v.src)
            return self.named_int(self.u8_ty(), nm)
        if ety is None:
            ety = self.u8_ty()
        return self.new_int(ety, "elem") if self.T(ety)["k"] == "int" else VUnknown(ety, self.fresh("elem"))

    def u8_ty(self):
        if not hasattr(self, "_u8"):
            self._u8 = self.find_type(lambda t: t["k"] == "int" and t["n"] == "u8")
            self._usize = self.find_type(lambda t: t["k"] == "int" and t["n"] == "usize")
            self._u16 = self.find_type(lambda t: t["k"] == "int" and t["n"] == "u16")
            self._bool = self.find_type(lambda t: t["k"] == "bool")
        return self._u8

    def usize_ty(self):
        self.u8_ty()
        return self._usize

    def u16_ty(self):
        self.u8_ty()
        return self._u16

    def store(self, st, cell, path, val):
        if not path:
            st.cells[cell] = val
            return
        root = self.get_cell(st, cell)
        if isinstance(root, VVec) and len(path) == 1 and path[0][0] in ("e", "ei") and isinstance(val, VInt):
            # one element of a buffer overwritten (element-wise copy loops are summarised from these)
            st.emit(("elemstore", cell, path[0][1] if path[0][0] == "ei" else Lin.const(path[0][1]), val))
        st.cells[cell] = self.updated(st, root, path, val)

    def updated(self, st, v, path, val):
        if not path:
            return val
        el = path[0]
        k = el[0]
        if k == "f":
            _, vi, fi = el[:3]
            if isinstance(v, VUnknown):
                # materialise as an Adt with unknown siblings if the type is known
                if v.ty is not None:
                    mv = self.symval(st, v.ty, v.name or self.fresh("m"))
                    if isinstance(mv, VAdt):
                        return self.updated(st, mv, path, val)
                # otherwise build a shell
                tys = None
                n = fi + 1
                fs = [VUnknown(None, self.fresh("sib")) for _ in range(n)]
                shell = VAdt(None, Lin.const(vi), {vi: tuple(fs)})
                return self.updated(st, shell, path, val)
            if isinstance(v, VAdt):
                fs = self.variant_fields(st, v, vi)
                if fs is None:
                    fs = ()
                fs = list(fs)
                while len(fs) <= fi:
                    fs.append(VUnknown(None, self.fresh("sib")))
                fs[fi] = self.updated(st, fs[fi], path[1:], val)
                vs = dict(v.variants)
                vs[vi] = tuple(fs)
                return VAdt(v.ty, v.vidx, vs, v.base)
            if isinstance(v, VClosure):
                ups = list(v.upvars)
                ups[fi] = self.updated(st, ups[fi], path[1:], val)
                return VClosure(v.key, tuple(ups))
            if isinstance(v, (VRef,)):
                # writing through Box internals (vec! expansion): treat as the pointee
                return self.updated(st, v, path[1:], val)
            return VUnknown(None, self.fresh("clob"))
        if k in ("e", "ei"):
            idx = el[1] if k == "e" else (el[1].c if el[1].is_const() else None)
            if isinstance(v, VArr):
                if v.elems is not None and idx is not None and 0 <= idx < len(v.elems):
                    es = list(v.elems)
                    es[idx] = self.updated(st, es[idx], path[1:], val)
                    return VArr(v.n, tuple(es), v.name, v.src)
                return VArr(v.n, None, self.fresh("arr"), None)
            if isinstance(v, VVec):
                self.vec_elem_write(st, v, el, val)
                if isinstance(val, VAdt) and val.base and v.name and val.base.startswith(v.name + "["):
                    return v        # write-back of a lazily materialised element: content unchanged
                return VVec(v.len, None, None, (v.name or "vec") + "'", v.elem_ty, self.marks_after_write(st, v, el))
            return VUnknown(None, self.fresh("clob"))
        raise Abort("updated %r" % (el,))

    def vec_elem_write(self, st, v, el, val):
        pass

    def marks_after_write(self, st, v, el):
        return v.marks

    # ------------------------------------------------------------ places
    def resolve_place(self, st, frame, place, for_write=False):
        """MIR place -> location (cell, path) following derefs"""
        cell = frame.cells[place["l"]]
        path = ()
        cur_variant = 0
        cur_slice = None
        for pi, e in enumerate(place["p"]):
            if cur_slice is not None:
                # element of a slice reference: (*s)[i] is element start+i of the underlying buffer
                sl = cur_slice
                cur_slice = None
                if "idx" in e or "cidx" in e:
                    if "idx" in e:
                        iv = self.load(st, frame.cells[e["idx"]], ())
                        il = iv.lin if isinstance(iv, VInt) else Lin.sym(self.fresh("ix"))
                    else:
                        if e["from_end"]:
                            raise Abort("from_end index")
                        il = Lin.const(e["cidx"])
                    pos = sl.start + il
                    b = sl.base
                    if isinstance(b, tuple) and b and b[0] == "loc":
                        cell, path = b[1], b[2] + ((("e", pos.c),) if pos.is_const() else (("ei", pos),))
                    elif isinstance(st.cells.get(b), VVec):
                        cell, path = b, ((("e", pos.c),) if pos.is_const() else (("ei", pos),))
                    else:
                        ncell = ("elem", b, pos.key())
                        if ncell not in st.cells:
                            st.cells[ncell] = self.named_int(self.u8_ty(), "byte(%r@%r)" % (b, pos), bits_sym=True) if sl.elem in (None, self.u8_ty()) \
                                else VUnknown(sl.elem, "elem(%r@%r)" % (b, pos))
                        cell, path = ncell, ()
                    cur_variant = 0
                    continue
                raise Abort("projection %r on a slice" % (e,))
            if e == "deref":
                v = self.load(st, cell, path)
                if isinstance(v, VRef):
                    cell, path = v.cell, v.path
                elif isinstance(v, VSlice):
                    if pi + 1 < len(place["p"]):
                        cur_slice = v
                        continue
                    # deref of a slice reference: stay on the slice value (handled by callers)
                    return ("slice", v, cell, path)
                elif isinstance(v, VUnknown):
                    # unknown pointer: allocate an anonymous target so later reads are consistent
                    ncell = ("anon", v.name or self.fresh("p"))
                    if ncell not in st.cells:
                        st.cells[ncell] = VUnknown(None, self.fresh("tgt"))
                    cell, path = ncell, ()
                else:
                    raise Abort("deref of %r in %s" % (v, frame.key))
                cur_variant = 0
            elif "f" in e:
                path = path + (("f", cur_variant, e["f"], e.get("ty")),)
                cur_variant = 0
            elif "dc" in e:
                cur_variant = e["dc"]
            elif "idx" in e:
                iv = self.load(st, frame.cells[e["idx"]], ())
                if isinstance(iv, VInt):
                    if iv.lin.is_const():
                        path = path + (("e", iv.lin.c),)
                    else:
                        path = path + (("ei", iv.lin),)
                else:
                    path = path + (("ei", Lin.sym(self.fresh("ix"))),)
            elif "cidx" in e:
                if e["from_end"]:
                    raise Abort("from_end index")
                path = path + (("e", e["cidx"]),)
            else:
                raise Abort("projection %r" % (e,))
        return (cell, path)

    def read_place(self, st, frame, place):
        loc = self.resolve_place(st, frame, place)
        if loc[0] == "slice":
            return loc[1]
        return self.load(st, loc[0], loc[1])

    def write_place(self, st, frame, place, val):
        loc = self.resolve_place(st, frame, place, True)
        if loc[0] == "slice":
            raise Abort("write to slice deref")
        self.store(st, loc[0], loc[1], val)

    def place_ty(self, frame, place):
        """type id of a MIR place (best effort)"""
        ty = frame.body["locals"][place["l"]]
        for e in place["p"]:
            if ty is None:
                return None
            t = self.fx.types[ty]
            if e == "deref":
                if t["k"] in ("ref", "ptr"):
                    ty = t["to"]
                elif t["k"] == "adt" and t["name"] == "std::boxed::Box":
                    ty = t["args"][0]
                else:
                    return None
            elif "f" in e:
                ty = e["ty"]
            elif "dc" in e:
                pass
            elif "idx" in e or "cidx" in e:
                if t["k"] in ("array", "slice"):
                    ty = t["of"]
                else:
                    return None
            else:
                return None
        return ty
