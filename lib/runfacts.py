"""Regenerate the E0 fact file from /repo's current working tree (fail closed)."""
import fcntl
import hashlib
import json
import os
import shutil
import subprocess
import sys
import time

VERIF = os.path.dirname(os.path.dirname(os.path.abspath(__file__)))
REPO = os.environ.get("L2TP_REPO", "/repo")
CACHE = os.path.join(VERIF, ".cache")
DRIVER = os.path.join(CACHE, "driver-target", "release", "l2tp-facts")

CONFIGS = {
    # name: (rustflags, cargo extra args)
    "default": ("-Zmir-opt-level=0 -Awarnings -Coverflow-checks=on -Cdebug-assertions=off", []),
    "debug": ("-Zmir-opt-level=0 -Awarnings -Coverflow-checks=on -Cdebug-assertions=on", []),
    "release": ("-Zmir-opt-level=0 -Awarnings -Coverflow-checks=off -Cdebug-assertions=off", []),
}


class InfraError(Exception):
    pass


def source_hash(repo=REPO):
    h = hashlib.sha256()
    files = []
    for root, dirs, fs in os.walk(repo):
        dirs[:] = sorted(d for d in dirs if d not in (".git", "target"))
        for f in sorted(fs):
            files.append(os.path.join(root, f))
    for p in files:
        h.update(os.path.relpath(p, repo).encode())
        h.update(b"\0")
        try:
            with open(p, "rb") as fh:
                h.update(fh.read())
        except OSError:
            pass
        h.update(b"\0")
    return h.hexdigest()


def sysroot():
    return subprocess.check_output(["rustc", "+nightly", "--print", "sysroot"], text=True).strip()


def ensure_driver():
    if os.path.exists(DRIVER):
        src = os.path.join(VERIF, "driver", "src", "main.rs")
        if os.path.getmtime(DRIVER) >= os.path.getmtime(src):
            return
    env = dict(os.environ, CARGO_TARGET_DIR=os.path.join(CACHE, "driver-target"), CARGO_NET_OFFLINE="true")
    r = subprocess.run(["cargo", "build", "--release", "--offline"], cwd=os.path.join(VERIF, "driver"),
                       env=env, capture_output=True, text=True)
    if r.returncode != 0 or not os.path.exists(DRIVER):
        raise InfraError("driver build failed:\n" + r.stderr[-4000:])


def facts_path(config="default", repo=REPO):
    tag = hashlib.sha256(repo.encode()).hexdigest()[:8] if repo != "/repo" else "repo"
    return os.path.join(CACHE, "facts-%s-%s.json" % (tag, config))


def generate(config="default", repo=REPO, force=False):
    """returns (path, source hash, seconds, reused)"""
    os.makedirs(CACHE, exist_ok=True)
    t0 = time.time()
    lock = open(os.path.join(CACHE, ".facts.lock"), "w")
    fcntl.flock(lock, fcntl.LOCK_EX)
    try:
        ensure_driver()
        sh = source_hash(repo)
        out = facts_path(config, repo)
        meta = out + ".meta"
        drv_m = os.path.getmtime(DRIVER)
        if not force and os.path.exists(out) and os.path.exists(meta):
            try:
                m = json.load(open(meta))
                if m.get("source_hash") == sh and m.get("driver_mtime") == drv_m:
                    return out, sh, time.time() - t0, True
            except Exception:
                pass
        rustflags, extra = CONFIGS[config]
        tag = os.path.basename(out)[6:-5]
        target = os.path.join(CACHE, "target-" + tag)
        # cargo's freshness cache would skip the wrapper: drop the member's fingerprints
        fp = os.path.join(target, "debug", ".fingerprint")
        if os.path.isdir(fp):
            for d in os.listdir(fp):
                if d.startswith("rl2tp-"):
                    shutil.rmtree(os.path.join(fp, d), ignore_errors=True)
        nonce = "%d-%d" % (os.getpid(), time.time_ns())
        tmp = out + ".tmp"
        if os.path.exists(tmp):
            os.remove(tmp)
        env = dict(os.environ)
        env.update({
            "LD_LIBRARY_PATH": sysroot() + "/lib",
            "RUSTFLAGS": rustflags,
            "RUSTC_WORKSPACE_WRAPPER": DRIVER,
            "L2TP_FACTS_OUT": tmp,
            "L2TP_FACTS_NONCE": nonce,
            "CARGO_TARGET_DIR": target,
            "CARGO_NET_OFFLINE": "true",
        })
        r = subprocess.run(["cargo", "+nightly", "check", "--offline", "--lib"] + extra, cwd=repo, env=env,
                           capture_output=True, text=True)
        if r.returncode != 0:
            raise InfraError("cargo check of %s failed (the tree does not compile?):\n%s" % (repo, r.stderr[-6000:]))
        if not os.path.exists(tmp):
            raise InfraError("fact file was not produced (wrapper skipped?)\n" + r.stderr[-2000:])
        with open(tmp) as fh:
            head = fh.read(400)
        if nonce not in head:
            raise InfraError("stale fact file (nonce mismatch)")
        os.replace(tmp, out)
        json.dump({"source_hash": sh, "driver_mtime": drv_m, "config": config, "nonce": nonce}, open(meta, "w"))
        return out, sh, time.time() - t0, False
    finally:
        fcntl.flock(lock, fcntl.LOCK_UN)
        lock.close()


if __name__ == "__main__":
    cfg = sys.argv[1] if len(sys.argv) > 1 else "default"
    print(generate(cfg, force="--force" in sys.argv))
