"""E2 wireshape: token layouts from writer/reader event traces, field provenance, post-hoc
matching of an encoder layout against the decoder's paths."""
from absval import *
from lin import Lin, c_eq, c_le, c_lt, unsat


def norm_desc(d):
    """normalise a region descriptor"""
    if not isinstance(d, tuple):
        return d
    if d and d[0] == "sym" and len(d) == 4:
        # ('sym', name, start, len): whole-object regions are just the object
        if isinstance(d[2], Lin) and d[2].is_const() and d[2].c == 0 and repr(d[3]) == "len(%s)" % d[1]:
            return ("sym", d[1])
    return d


def int_prov(eng, v):
    """provenance of an emitted integer"""
    if not isinstance(v, VInt):
        if isinstance(v, VBool):
            return ("bool", v.f)
        return ("?", repr(v))
    if v.lin.is_const():
        return ("const", v.lin.c)
    items = list(v.lin.t.items())
    if len(items) == 1 and items[0][1] == 1 and v.lin.c == 0:
        return ("sym", items[0][0])
    return ("expr", repr(v.lin))


def wtokens(eng, st, wid=None):
    """writer tokens of a path: list of dicts"""
    out = []
    for e in st.events():
        if e[0] == "w" and (wid is None or e[1] == wid):
            if e[2] == "bytes":
                ln, d = e[3]
                out.append({"k": "bytes", "n": ln, "desc": norm_desc(d), "site": e[4]})
            else:
                n = {"write_u8": 1, "write_u16_be": 2, "write_u32_be": 4, "write_u64_be": 8}[e[2]]
                out.append({"k": "int", "n": Lin.const(n), "val": e[3], "prov": int_prov(eng, e[3]), "site": e[4]})
        elif e[0] == "wat" and (wid is None or e[1] == wid):
            ln, d = e[2]
            out.append({"k": "patch", "n": ln, "desc": norm_desc(d), "off": e[3], "site": e[4], "ok": e[5]})
    return out


def rtokens(eng, st, rid=None):
    out = []
    for e in st.events():
        if e[0] == "read" and (rid is None or e[1] == rid):
            out.append({"k": "read", "n": Lin.const(e[2]), "val": e[3], "rid": e[1], "site": e[4]})
        elif e[0] == "skip" and (rid is None or e[1] == rid):
            out.append({"k": "skip", "n": e[2].lin, "rid": e[1], "site": e[3]})
        elif e[0] == "bytes" and (rid is None or e[1] == rid):
            out.append({"k": "bytes", "n": e[2].lin, "rid": e[1], "site": e[3], "ok": e[4], "start": e[5] if len(e) > 5 else None})
        elif e[0] == "sub" and (rid is None or e[1] == rid):
            out.append({"k": "sub", "n": e[2].lin, "rid": e[1], "new": e[3], "site": e[4]})
    return out


def fmt_tokens(toks):
    out = []
    for t in toks:
        if t["k"] == "int":
            out.append("u%d(%s)" % (t["n"].c * 8, t["prov"][1] if t["prov"][0] != "const" else "const %s" % t["prov"][1]))
        elif t["k"] == "bytes" and "desc" in t:
            out.append("bytes[%r](%s)" % (t["n"], t["desc"]))
        elif t["k"] == "read":
            out.append("read%d" % (t["n"].c * 8))
        elif t["k"] in ("skip", "sub", "bytes"):
            out.append("%s[%r]" % (t["k"], t["n"]))
        elif t["k"] == "patch":
            out.append("patch@%r[%r]" % (t["off"].lin, t["n"]))
    return out


def field_names(eng, v, vidx):
    adt, t = eng.adt_info(v.ty) if v.ty is not None else (None, None)
    if adt is not None and vidx < len(adt["variants"]):
        var = adt["variants"][vidx]
        return var["name"], [f["name"] for f in var["fields"]], adt["kind"]
    name = (t or {}).get("name", "")
    if name == "std::option::Option":
        return ["None", "Some"][vidx], None, "Enum"
    if name == "std::result::Result":
        return ["Ok", "Err"][vidx], None, "Enum"
    return str(vidx), None, "Struct"


def leaves(eng, st, v, prefix=""):
    """(field path, leaf value) of an aggregate value; vec handles are resolved to their VVec"""
    if isinstance(v, VAdt):
        if not v.vidx.is_const():
            yield (prefix + "#v", v)
            return
        vi = v.vidx.c
        vname, fnames, kind = field_names(eng, v, vi)
        fs = v.variants.get(vi, ())
        for i, f in enumerate(fs):
            if kind == "Enum":
                p = "%s.%s.%d" % (prefix, vname, i)
            elif fnames is not None and i < len(fnames) and not fnames[i].isdigit():
                p = "%s.%s" % (prefix, fnames[i])
            else:
                p = "%s.%d" % (prefix, i)
            yield from leaves(eng, st, f, p)
        if not fs and kind == "Enum":
            yield (prefix + "." + vname, None)
        return
    if isinstance(v, VRef):
        t = st.cells.get(v.cell)
        if isinstance(t, VVec):
            yield (prefix, t)
            return
    yield (prefix, v)


def conj_feasible(eng, st, extra):
    """is st's path condition together with the extra constraints not provably unsatisfiable?"""
    cons = list(st.cons) + list(extra)
    return not unsat(cons, eng.ranges)


def conj_entails(eng, st, extra, q):
    from lin import entails
    return entails(list(st.cons) + list(extra), q, eng.ranges)


def pin_divmods(st, assignments):
    """constraints fixing every memoised quotient/remainder whose dividend becomes constant
    under `assignments` (sym -> int); integer-exact where Fourier-Motzkin alone is not"""
    known = dict(assignments)
    out = []
    changed = True
    while changed:
        changed = False
        for (lkey, c), (q, r) in st.divmemo.items():
            if q in known:
                continue
            terms, const = lkey
            val = const
            ok = True
            for s, k in terms:
                if s not in known:
                    ok = False
                    break
                val += k * known[s]
            if ok:
                known[q] = val // c
                known[r] = val % c
                out.append(c_eq(Lin.sym(q), Lin.const(val // c)))
                out.append(c_eq(Lin.sym(r), Lin.const(val % c)))
                changed = True
    return out


# ---------------------------------------------------------------- canonical payload layouts

def _strip(name, prefix="self.*"):
    if name.startswith(prefix):
        name = name[len(prefix):]
    name = name.lstrip(".")
    return name.replace(".Some.0", "").replace("Some.0", "")


def _merge_zero(items):
    out = []
    for it in items:
        if it[0] == "zero" and out and out[-1][0] == "zero":
            out[-1] = ("zero", out[-1][1] + it[1])
        else:
            out.append(it)
    return out


# ---------------------------------------------------------------- bit spans: which bits of which value is this?

def _divdefs(st):
    """reverse view of the memoised quotient/remainder symbols: name -> (dividend Lin, divisor, 'q' | 'r')"""
    d = st.ghost.get("_divdefs")
    if d is not None and d[0] == len(st.divmemo):
        return d[1]
    m = {}
    for (lkey, c), (q, r) in st.divmemo.items():
        terms, const = lkey
        e = Lin(dict(terms), const)
        m[q] = (e, c, "q")
        m[r] = (e, c, "r")
    st.ghost["_divdefs"] = (len(st.divmemo), m)
    return m


def _pow2(c):
    return c > 0 and (c & (c - 1)) == 0


def bitspan(eng, st, lin, depth=0):
    """(base symbol, low bit, number of bits) when `lin` is provably bits [lo, lo+n) of the unsigned value `base`
    (a field of the value being encoded, or an integer read from the wire); None otherwise.  Understands the
    quotient/remainder symbols the engine creates for `>>`, `&`, `%`, `/`, `as u8` and to_be_bytes digits, and sums
    of such pieces that sit next to each other (from_be_bytes, `(hi << 8) | lo`)."""
    if depth > 12 or lin.c != 0 or not lin.t:
        return None
    items = sorted(lin.t.items(), key=lambda kv: kv[1])
    if len(items) == 1 and items[0][1] == 1:
        sname = items[0][0]
        d = _divdefs(st).get(sname)
        if d is None:
            rg = eng.ranges.get(sname)
            if rg is None or rg[0] is None or rg[0] < 0 or rg[1] is None:
                return None
            return (sname, 0, max(1, int(rg[1]).bit_length()))
        e, c, which = d
        if not _pow2(c):
            return None
        k = c.bit_length() - 1
        inner = bitspan(eng, st, e, depth + 1)
        if inner is None:
            return None
        b, lo, n = inner
        if which == "q":
            return (b, lo + k, n - k) if n > k else None
        return (b, lo, min(n, k))
    # sum of adjacent pieces: sum 2^k_i * e_i
    parts = []
    for sname, coef in items:
        if not _pow2(coef):
            return None
        sp = bitspan(eng, st, Lin.sym(sname), depth + 1)
        if sp is None:
            return None
        parts.append((coef.bit_length() - 1, sp))
    parts.sort()
    k0, (b0, lo0, n0) = parts[0]
    if k0 != 0:
        return None
    pos, lo, n = n0, lo0, n0
    for k, (b, l2, n2) in parts[1:]:
        if b != b0 or k != pos or l2 != lo + n:
            return None
        pos += n2
        n += n2
    return (b0, lo, n)


def span_symbol(eng, st, span):
    """an existing symbol of the state that denotes exactly the bit range `span` (the value the code itself computed
    for those bits), or None"""
    b, lo, n = span
    if lo == 0 and _sym_bits(eng, b) == n:
        return b
    for name in _divdefs(st):
        if bitspan(eng, st, Lin.sym(name)) == span:
            return name
    return None


def canonical_value(eng, st, lin):
    """`lin` itself, or - when it is a bit range of some value for which the code computed its own symbol - that
    symbol, so that two ways of carving the same bits compare equal syntactically"""
    if len(lin.t) == 1 and lin.c == 0 and next(iter(lin.t.values())) == 1 and next(iter(lin.t)) not in _divdefs(st):
        return lin
    sp = bitspan(eng, st, lin)
    if sp is None:
        return lin
    names = sorted(nm for nm in list(_divdefs(st)) if bitspan(eng, st, Lin.sym(nm)) == sp)
    b, lo, n = sp
    if lo == 0 and _sym_bits(eng, b) == n:
        names.insert(0, b)
    if not names:
        return lin
    # all of them denote the same bits: tell the solver, then use the first
    for other in names[1:]:
        c = c_eq(Lin.sym(names[0]), Lin.sym(other))
        if c not in st.cons:
            st.cons.append(c)
    return Lin.sym(names[0])


def _sym_bits(eng, sname):
    rg = eng.ranges.get(sname)
    if rg is None or rg[1] is None:
        return None
    return max(1, int(rg[1]).bit_length())


def _octets_of_value(eng, st, lin, w):
    """w octet descriptors (most significant first) of the w-octet big-endian encoding of `lin`:
    ('c', byte) | ('f', base symbol, low bit of this octet within base) | ('x', text)"""
    if lin.is_const():
        v = lin.c
        return [("c", (v >> (8 * (w - 1 - i))) & 0xff) for i in range(w)]
    sp = bitspan(eng, st, lin)
    if sp is not None:
        b, lo, n = sp
        if lo % 8 == 0 and n <= 8 * w:
            nb = (n + 7) // 8
            out = [("c", 0)] * (w - nb)
            for i in range(nb):
                out.append(("f", b, lo + 8 * (nb - 1 - i)))
            return out
    # concatenation: sum 256^j * piece, pieces not overlapping
    pieces = []
    rest = lin.c
    for sname, coef in lin.t.items():
        if coef <= 0:
            return [("x", repr(lin))] * w
        j = 0
        c2 = coef
        while c2 % 256 == 0:
            c2 //= 256
            j += 1
        if c2 != 1:
            return [("x", repr(lin))] * w
        sp = bitspan(eng, st, Lin.sym(sname))
        if sp is None or sp[1] % 8 != 0:
            return [("x", repr(lin))] * w
        pieces.append((j, sp))
    if rest < 0:
        return [("x", repr(lin))] * w
    out = [None] * w
    for j, (b, lo, n) in pieces:
        nb = (n + 7) // 8
        for i in range(nb):
            idx = w - 1 - (j + i)
            if idx < 0 or out[idx] is not None:
                return [("x", repr(lin))] * w
            out[idx] = ("f", b, lo + 8 * i)
    for i in range(w):
        byte = (rest >> (8 * (w - 1 - i))) & 0xff
        if out[i] is None:
            out[i] = ("c", byte)
        elif byte:
            return [("x", repr(lin))] * w
    if rest >> (8 * w):
        return [("x", repr(lin))] * w
    return out


def writer_octets(eng, st, toks):
    """per-octet descriptors of a run of fixed-width writer tokens (stops at the first variable-length token)"""
    out = []
    for t in toks:
        if t["k"] == "int" and t.get("prov", ("?",))[0] == "const":
            out.extend(_octets_of_value(eng, st, Lin.const(t["prov"][1]), t["n"].c))
        elif t["k"] == "int" and isinstance(t["val"], VInt):
            out.extend(_octets_of_value(eng, st, t["val"].lin, t["n"].c))
        elif t["k"] == "bytes" and t["desc"][0] == "elems":
            for e in t["desc"][1]:
                out.extend(_octets_of_value(eng, st, e.lin, 1) if isinstance(e, VInt) else [("x", "?")])
        elif t["k"] == "bytes" and t["desc"][0] == "be" and isinstance(t["desc"][1], VInt) and t["desc"][2]:
            out.extend(_octets_of_value(eng, st, t["desc"][1].lin, t["desc"][2]))
        elif t["k"] == "bytes" and t["desc"][0] == "const":
            out.extend(("c", b) for b in t["desc"][1])
        else:
            break
    return out


def split_known_bytes(eng, st, toks):
    """writer tokens with a `write_bytes` of individually known octets (a pre-assembled header array) replaced by the
    integer tokens those octets regroup to; left alone when they do not regroup into whole values and constants"""
    out = []
    for t in toks:
        if t["k"] == "bytes" and t["desc"][0] in ("elems", "be") and t["n"].is_const():
            octs = writer_octets(eng, st, [t])
            if len(octs) == t["n"].c and all(o[0] in ("f", "c") for o in octs):
                items = _merge_octets(eng, octs, lambda b: ("int", b), lambda b: _sym_bits(eng, b))
                if items and all(it[0] in ("int", "zero", "const") for it in items):
                    for it in items:
                        if it[0] == "int":
                            out.append({"k": "int", "n": Lin.const(it[1]), "val": VInt(None, Lin.sym(it[2])), "prov": ("sym", it[2]), "site": t["site"]})
                        elif it[0] == "zero":
                            # (placeholder / reserved octets stay what they were: a run of zero octets)
                            out.append({"k": "bytes", "n": Lin.const(it[1]), "desc": ("const", (0,) * it[1]), "site": t["site"]})
                        else:
                            c = it[2]
                            out.append({"k": "int", "n": Lin.const(it[1]), "val": VInt(None, Lin.const(c)), "prov": ("const", c), "site": t["site"]})
                    continue
        out.append(t)
    return out


def compose_octets(eng, st, octs):
    """the big-endian value of a run of octet descriptors as a Lin over the base symbols (quotient/remainder symbols
    are created in `st` for partial fields); None if some octet is not understood"""
    val = Lin.const(0)
    i = 0
    n_ = len(octs)
    while i < n_:
        o = octs[i]
        if o[0] == "c":
            val = val.scale(256) + Lin.const(o[1])
            i += 1
            continue
        if o[0] != "f":
            return None
        b, hi_lo = o[1], o[2]
        j = i
        lo = hi_lo
        while j + 1 < n_ and octs[j + 1][0] == "f" and octs[j + 1][1] == b and octs[j + 1][2] == lo - 8:
            j += 1
            lo -= 8
        nbits = hi_lo + 8 - lo
        piece = Lin.sym(b)
        wb = _sym_bits(eng, b)
        if lo > 0:
            piece, _r = eng.divmod_const(st, piece, 1 << lo)
        if wb is None or wb > lo + nbits:
            _q, piece = eng.divmod_const(st, piece, 1 << nbits)
        val = val.scale(1 << nbits) + piece
        i = j + 1
    return val


def _merge_octets(eng, octs, name_of, width_of):
    """octet descriptors -> canonical items: a run that is exactly the octets of one value, most significant first,
    becomes ('int' | 'enum', n, name); constants become ('zero', n) / ('const', n, v)"""
    items = []
    i = 0
    n_ = len(octs)
    while i < n_:
        o = octs[i]
        if o[0] == "f":
            b = o[1]
            wbits = width_of(b)
            if wbits is not None:
                nb = (wbits + 7) // 8
                want = [("f", b, 8 * (nb - 1 - k)) for k in range(nb)]
                if [tuple(x) for x in octs[i:i + nb]] == want:
                    nm = name_of(b)
                    items.append(nm[:1] + (nb,) + nm[1:])
                    i += nb
                    continue
            items.append(("expr", 1, "%s bits %d.." % (b, o[2])))
            i += 1
        elif o[0] == "c":
            # maximal run of constants (up to 8 octets = one integer)
            j = i
            val = 0
            while j < n_ and octs[j][0] == "c" and j - i < 8:
                val = val * 256 + octs[j][1]
                j += 1
            if val == 0:
                items.append(("zero", j - i))
            elif j - i > 2 and octs[j - 1][1] == 0:
                # a constant followed by reserved zero octets in one pre-assembled run: the value, then the zeros
                k = j
                while k > i and octs[k - 1][1] == 0:
                    k -= 1
                if (k - i) % 2:
                    k += 1          # (values are whole 16-bit words here: keep an even number of octets for the value)
                v2 = 0
                for x in octs[i:k]:
                    v2 = v2 * 256 + x[1]
                items.append(("const", k - i, v2))
                if j > k:
                    items.append(("zero", j - k))
            else:
                items.append(("const", j - i, val))
            i = j
        else:
            items.append((o[0],) + tuple(o[1:]))
            i += 1
    return items


def canon_writer(eng, st, toks, prefix="self.*"):
    """canonical items of an encoder path.  Integer writes and computed octets are first expanded into per-octet
    descriptors (which bits of which field, or which constant), then re-grouped, so that
    `write_u16(a); write_u16(b)`, `write_u32(a << 16 | b)` and `write_bytes(&[a_hi, a_lo, b_hi, b_lo])` give the
    same items."""
    def name_of(b):
        if b.endswith("#v"):
            return ("enum", _strip(b[:-2], prefix))
        return ("int", _strip(b, prefix))

    def width_of(b):
        return _sym_bits(eng, b)

    items = []
    pend = []          # octet descriptors not yet grouped

    def flush():
        if pend:
            items.extend(_merge_octets(eng, pend, name_of, width_of))
            del pend[:]
    for t in toks:
        if t["k"] == "int":
            w = t["n"].c
            v = t["val"]
            p = t["prov"]
            if p[0] == "const":
                # resolved by the caller (a flag word decided by a case split on this path)
                flush()
                items.append(("const", w, p[1]))
                continue
            if isinstance(v, VInt):
                # a constant stays one item of its own width (the attribute type, a flag word)
                if v.lin.is_const():
                    flush()
                    items.append(("const", w, v.lin.c))
                    continue
                if p[0] == "sym" and p[1] not in _divdefs(st):
                    # the whole token is one value (possibly widened by a cast): one item of the token's width
                    flush()
                    items.append(("enum", w, _strip(p[1][:-2], prefix)) if p[1].endswith("#v") else ("int", w, _strip(p[1], prefix)))
                    continue
                octs = _octets_of_value(eng, st, v.lin, w)
                if not any(o[0] == "x" for o in octs):
                    pend.extend(octs)
                    continue
            flush()
            if p[0] == "sym":
                items.append(("enum", w, _strip(p[1][:-2], prefix)) if p[1].endswith("#v") else ("int", w, _strip(p[1], prefix)))
            else:
                items.append(("expr", w, p[1]))
        elif t["k"] == "bytes":
            d = t["desc"]
            if d[0] == "const":
                flush()
                if all(x == 0 for x in d[1]):
                    items.append(("zero", len(d[1])))
                else:
                    items.append(("constbytes", tuple(d[1])))
            elif d[0] == "elems":
                for e in d[1]:
                    if isinstance(e, VInt):
                        pend.extend(_octets_of_value(eng, st, e.lin, 1))
                    else:
                        pend.append(("x", repr(e)[:40]))
            elif d[0] == "be" and isinstance(d[1], VInt) and d[2]:
                pv = int_prov(eng, d[1])
                if pv[0] == "sym" and pv[1] not in _divdefs(st):
                    flush()
                    sb = _sym_bits(eng, pv[1])
                    if sb is not None and sb % 8 == 0 and 0 < sb < 8 * d[2] and not pv[1].endswith("#v"):
                        # the octets of a narrower field widened first (`u16::from(x).to_be_bytes()` for a u8 x): zeros, then x
                        items.append(("zero", d[2] - sb // 8))
                        items.append(("int", sb // 8, _strip(pv[1], prefix)))
                    else:
                        items.append(("enum", d[2], _strip(pv[1][:-2], prefix)) if pv[1].endswith("#v") else ("int", d[2], _strip(pv[1], prefix)))
                elif pv[0] == "const":
                    flush()
                    items.append(("const", d[2], pv[1]))
                else:
                    pend.extend(_octets_of_value(eng, st, d[1].lin, d[2]))
            elif d[0] == "sym" and len(d) == 2:
                flush()
                items.append(("rest", _strip(d[1], prefix)))
            elif d[0] == "arr" and isinstance(d[3], Lin) and d[3].is_const() and d[3].c == 0 and d[4].is_const():
                flush()
                items.append(("bytes", d[4].c, _strip(d[1] or "?", prefix)))
            else:
                flush()
                items.append(("?", repr(d)[:80]))
        elif t["k"] == "patch":
            flush()
            items.append(("patch",))
    flush()
    out = []
    for it in items:
        if it[0] == "x":
            out.append(("expr", 1, it[1]))
        else:
            out.append(it)
    # the elements NAME[0], NAME[1], .., NAME[n-1] of one array field, emitted one after the other, are that field
    import re as _re
    merged = []
    i = 0
    while i < len(out):
        m = _re.match(r"^(.*)\[(\d+)\]$", out[i][2]) if out[i][0] == "int" and out[i][1] == 1 and isinstance(out[i][2], str) else None
        if m and m.group(2) == "0":
            j = i
            while j + 1 < len(out) and out[j + 1][0] == "int" and out[j + 1][1] == 1 and out[j + 1][2] == "%s[%d]" % (m.group(1), j + 1 - i):
                j += 1
            if j > i:
                merged.append(("bytes", j - i + 1, m.group(1)))
                i = j + 1
                continue
        merged.append(out[i])
        i += 1
    return _merge_zero(merged)


def canon_reader(eng, st, rt, payload):
    """canonical items of a decoder path; payload = decoded aggregate (Ok value).  A fixed-width read is split
    among the decoded fields that are provably bit ranges of it, so reading two u16 fields as one u32 and splitting
    it gives the same items as two u16 reads."""
    lv = list(leaves(eng, st, payload)) if payload is not None else []
    utf8 = [e for e in st.events() if e[0] == "utf8"]
    spans = []
    for p, v in lv:
        if isinstance(v, VInt) and not v.lin.is_const():
            sp = bitspan(eng, st, v.lin)
            if sp is not None:
                spans.append((sp, _strip(p, "")))
    items = []
    for t in rt:
        if t["k"] == "read":
            w = t["n"].c
            val = t["val"]
            xs = next(iter(val.lin.t)) if isinstance(val, VInt) and len(val.lin.t) == 1 and val.lin.c == 0 else None
            mine = sorted(((lo, n, f) for (b, lo, n), f in spans if b == xs and lo % 8 == 0 and n % 8 == 0 and lo + n <= 8 * w),
                          key=lambda x: -x[0])
            if not mine:
                items.append(("read", w))
                continue
            # walk the octets from the most significant one
            pos = 8 * w
            ok = True
            piece = []
            for lo, n, f in mine:
                if lo + n > pos:
                    # overlapping fields (the same octets decoded twice): keep the first
                    continue
                if lo + n < pos:
                    piece.append(("read", (pos - lo - n) // 8))
                piece.append(("int", n // 8, f))
                pos = lo
            if pos > 0:
                piece.append(("read", pos // 8))
            items.extend(piece)
        elif t["k"] == "skip":
            items.append(("zero", t["n"].c) if t["n"].is_const() else ("skipvar", repr(t["n"])))
        elif t["k"] == "bytes":
            if not t.get("ok", True):
                items.append(("bytes-none",))
                continue
            f = None
            kind = None
            isutf = None
            for p, v in lv:
                src = None
                if isinstance(v, VArr) and v.src and v.src[0] == "slice":
                    src = v.src[1]
                    k2 = "bytes"
                elif isinstance(v, VVec) and v.segs and len(v.segs) == 1:
                    src = v.segs[0][1]
                    k2 = "rest"
                elif isinstance(v, VSlice) and isinstance(v.base, tuple) and v.base[0] == "rd":
                    src = ("wire", v.base[1], v.start, v.len)
                    k2 = "rest"
                if src is not None and src[0] == "wire" and src[1] == t["rid"] and src[3] == t["n"] and \
                        (t.get("start") is None or src[2] == t["start"]):
                    f, kind = _strip(p, ""), k2
                    isutf = any(u[1] == src and u[2] for u in utf8)
            if t["n"].is_const():
                items.append(("bytes", t["n"].c, f))
            else:
                items.append(("rest", f, bool(isutf)))
        elif t["k"] == "sub":
            items.append(("sub", repr(t["n"])))
    return _merge_reads(_merge_zero(items))


def _merge_reads(items):
    """adjacent unnamed reads are one stretch of consumed octets"""
    out = []
    for it in items:
        if it[0] == "read" and out and out[-1][0] == "read":
            out[-1] = ("read", out[-1][1] + it[1])
        else:
            out.append(it)
    return out


def spec_sequences(items):
    """all presence combinations of a spec item list: list of (sequence, present-set)"""
    seqs = [([], frozenset())]
    for it in items:
        if it["k"] == "opt":
            inner = spec_sequences(it["items"])
            new = []
            for s, pres in seqs:
                new.append((s, pres))
                for s2, p2 in inner:
                    new.append((s + s2, pres | p2 | {it["f"]}))
            seqs = new
        else:
            if it["k"] == "int":
                c = ("int", it["w"], it["f"])
            elif it["k"] == "enum":
                c = ("enum", it["w"], it["f"])
            elif it["k"] == "zero":
                c = ("zero", it["n"])
            elif it["k"] == "bytes":
                c = ("bytes", it["n"], it["f"])
            else:
                c = ("rest", it["f"], bool(it.get("utf8")))
            seqs = [(s + [c], pres) for s, pres in seqs]
    return seqs


def resolve_word(eng, st, val):
    """all (state, constant) alternatives of an emitted integer whose bits are constants or booleans
    decided (or decidable by a case split) on this path; None if some bit is unknown"""
    if isinstance(val, VInt) and val.lin.is_const():
        return [(st, val.lin.c)]
    bits = eng.bits_of(val) if isinstance(val, VInt) else None
    if bits is None:
        return None
    alts = [(st, 0)]
    for k, b in enumerate(bits):
        if b == 0:
            continue
        if b == 1:
            alts = [(s, w | (1 << k)) for s, w in alts]
            continue
        if b is None:
            return None
        f = ("bit", b[1], b[2]) if b[0] == "b" else (("not", ("bit", b[1], b[2])) if b[0] == "n" else b[1])
        new = []
        for s, w in alts:
            v = eng.bool_value(s, f)
            if v is True:
                new.append((s, w | (1 << k)))
            elif v is False:
                new.append((s, w))
            else:
                s1, s0 = s.fork(), s.fork()
                for s2 in eng.assume(s1, f, True):
                    new.append((s2, w | (1 << k)))
                for s2 in eng.assume(s0, f, False):
                    new.append((s2, w))
        alts = new
    return alts


# ---------------------------------------------------------------- octet tuples as big-endian values

def as_be(eng, st, desc):
    """(value Lin, n octets) when descriptor `desc` is n octets that are by construction the big-endian encoding of a
    value: a `to_be_bytes` result, or n individually computed octets each proven within 0..255 (then they ARE the
    base-256 digits of sum(e_i * 256^(n-1-i)) and the rule using this compares that sum with the intended value)."""
    if desc[0] == "be" and isinstance(desc[1], VInt):
        return desc[1].lin, desc[2]
    if desc[0] == "const":
        v = 0
        for b in desc[1]:
            v = v * 256 + b
        return Lin.const(v), len(desc[1])
    if desc[0] == "elems":
        v = Lin.const(0)
        for e in desc[1]:
            if not isinstance(e, VInt):
                return None
            lo, hi = eng.bounds(st, e.lin)
            if lo is None or hi is None or lo < 0 or hi > 255:
                return None
            v = v.scale(256) + e.lin
        return v, len(desc[1])
    return None
