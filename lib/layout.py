"""E2 wireshape: token layouts from writer/reader event traces, field provenance, post-hoc
matching of an encoder layout against the decoder's paths."""
from absval import *
from lin import Lin, c_eq, c_le, c_lt, unsat


def norm_desc(d):
    """normalise a region descriptor"""
    if not isinstance(d, tuple):
        return d
    if d and d[0] == "sym" and len(d) == 4:
        # ('sym', name, start, len): whole-object regions are just the object
        if isinstance(d[2], Lin) and d[2].is_const() and d[2].c == 0 and repr(d[3]) == "len(%s)" % d[1]:
            return ("sym", d[1])
    return d


def int_prov(eng, v):
    """provenance of an emitted integer"""
    if not isinstance(v, VInt):
        if isinstance(v, VBool):
            return ("bool", v.f)
        return ("?", repr(v))
    if v.lin.is_const():
        return ("const", v.lin.c)
    items = list(v.lin.t.items())
    if len(items) == 1 and items[0][1] == 1 and v.lin.c == 0:
        return ("sym", items[0][0])
    return ("expr", repr(v.lin))


def wtokens(eng, st, wid=None):
    """writer tokens of a path: list of dicts"""
    out = []
    for e in st.events():
        if e[0] == "w" and (wid is None or e[1] == wid):
            if e[2] == "bytes":
                ln, d = e[3]
                out.append({"k": "bytes", "n": ln, "desc": norm_desc(d), "site": e[4]})
            else:
                n = {"write_u8": 1, "write_u16_be": 2, "write_u32_be": 4, "write_u64_be": 8}[e[2]]
                out.append({"k": "int", "n": Lin.const(n), "val": e[3], "prov": int_prov(eng, e[3]), "site": e[4]})
        elif e[0] == "wat" and (wid is None or e[1] == wid):
            ln, d = e[2]
            out.append({"k": "patch", "n": ln, "desc": norm_desc(d), "off": e[3], "site": e[4], "ok": e[5]})
    return out


def rtokens(eng, st, rid=None):
    out = []
    for e in st.events():
        if e[0] == "read" and (rid is None or e[1] == rid):
            out.append({"k": "read", "n": Lin.const(e[2]), "val": e[3], "rid": e[1], "site": e[4]})
        elif e[0] == "skip" and (rid is None or e[1] == rid):
            out.append({"k": "skip", "n": e[2].lin, "rid": e[1], "site": e[3]})
        elif e[0] == "bytes" and (rid is None or e[1] == rid):
            out.append({"k": "bytes", "n": e[2].lin, "rid": e[1], "site": e[3], "ok": e[4]})
        elif e[0] == "sub" and (rid is None or e[1] == rid):
            out.append({"k": "sub", "n": e[2].lin, "rid": e[1], "new": e[3], "site": e[4]})
    return out


def fmt_tokens(toks):
    out = []
    for t in toks:
        if t["k"] == "int":
            out.append("u%d(%s)" % (t["n"].c * 8, t["prov"][1] if t["prov"][0] != "const" else "const %s" % t["prov"][1]))
        elif t["k"] == "bytes" and "desc" in t:
            out.append("bytes[%r](%s)" % (t["n"], t["desc"]))
        elif t["k"] == "read":
            out.append("read%d" % (t["n"].c * 8))
        elif t["k"] in ("skip", "sub", "bytes"):
            out.append("%s[%r]" % (t["k"], t["n"]))
        elif t["k"] == "patch":
            out.append("patch@%r[%r]" % (t["off"].lin, t["n"]))
    return out


def field_names(eng, v, vidx):
    adt, t = eng.adt_info(v.ty) if v.ty is not None else (None, None)
    if adt is not None and vidx < len(adt["variants"]):
        var = adt["variants"][vidx]
        return var["name"], [f["name"] for f in var["fields"]], adt["kind"]
    name = (t or {}).get("name", "")
    if name == "std::option::Option":
        return ["None", "Some"][vidx], None, "Enum"
    if name == "std::result::Result":
        return ["Ok", "Err"][vidx], None, "Enum"
    return str(vidx), None, "Struct"


def leaves(eng, st, v, prefix=""):
    """(field path, leaf value) of an aggregate value; vec handles are resolved to their VVec"""
    if isinstance(v, VAdt):
        if not v.vidx.is_const():
            yield (prefix + "#v", v)
            return
        vi = v.vidx.c
        vname, fnames, kind = field_names(eng, v, vi)
        fs = v.variants.get(vi, ())
        for i, f in enumerate(fs):
            if kind == "Enum":
                p = "%s.%s.%d" % (prefix, vname, i)
            elif fnames is not None and i < len(fnames) and not fnames[i].isdigit():
                p = "%s.%s" % (prefix, fnames[i])
            else:
                p = "%s.%d" % (prefix, i)
            yield from leaves(eng, st, f, p)
        if not fs and kind == "Enum":
            yield (prefix + "." + vname, None)
        return
    if isinstance(v, VRef):
        t = st.cells.get(v.cell)
        if isinstance(t, VVec):
            yield (prefix, t)
            return
    yield (prefix, v)


def conj_feasible(eng, st, extra):
    """is st's path condition together with the extra constraints not provably unsatisfiable?"""
    cons = list(st.cons) + list(extra)
    return not unsat(cons, eng.ranges)


def conj_entails(eng, st, extra, q):
    from lin import entails
    return entails(list(st.cons) + list(extra), q, eng.ranges)


def pin_divmods(st, assignments):
    """constraints fixing every memoised quotient/remainder whose dividend becomes constant
    under `assignments` (sym -> int); integer-exact where Fourier-Motzkin alone is not"""
    known = dict(assignments)
    out = []
    changed = True
    while changed:
        changed = False
        for (lkey, c), (q, r) in st.divmemo.items():
            if q in known:
                continue
            terms, const = lkey
            val = const
            ok = True
            for s, k in terms:
                if s not in known:
                    ok = False
                    break
                val += k * known[s]
            if ok:
                known[q] = val // c
                known[r] = val % c
                out.append(c_eq(Lin.sym(q), Lin.const(val // c)))
                out.append(c_eq(Lin.sym(r), Lin.const(val % c)))
                changed = True
    return out
