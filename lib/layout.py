"""E2 wireshape: token layouts from writer/reader event traces, field provenance, post-hoc
matching of an encoder layout against the decoder's paths."""
from absval import *
from lin import Lin, c_eq, c_le, c_lt, unsat


def norm_desc(d):
    """normalise a region descriptor"""
    if not isinstance(d, tuple):
        return d
    if d and d[0] == "sym" and len(d) == 4:
        # ('sym', name, start, len): whole-object regions are just the object
        if isinstance(d[2], Lin) and d[2].is_const() and d[2].c == 0 and repr(d[3]) == "len(%s)" % d[1]:
            return ("sym", d[1])
    return d


def int_prov(eng, v):
    """provenance of an emitted integer"""
    if not isinstance(v, VInt):
        if isinstance(v, VBool):
            return ("bool", v.f)
        return ("?", repr(v))
    if v.lin.is_const():
        return ("const", v.lin.c)
    items = list(v.lin.t.items())
    if len(items) == 1 and items[0][1] == 1 and v.lin.c == 0:
        return ("sym", items[0][0])
    return ("expr", repr(v.lin))


def wtokens(eng, st, wid=None):
    """writer tokens of a path: list of dicts"""
    out = []
    for e in st.events():
        if e[0] == "w" and (wid is None or e[1] == wid):
            if e[2] == "bytes":
                ln, d = e[3]
                out.append({"k": "bytes", "n": ln, "desc": norm_desc(d), "site": e[4]})
            else:
                n = {"write_u8": 1, "write_u16_be": 2, "write_u32_be": 4, "write_u64_be": 8}[e[2]]
                out.append({"k": "int", "n": Lin.const(n), "val": e[3], "prov": int_prov(eng, e[3]), "site": e[4]})
        elif e[0] == "wat" and (wid is None or e[1] == wid):
            ln, d = e[2]
            out.append({"k": "patch", "n": ln, "desc": norm_desc(d), "off": e[3], "site": e[4], "ok": e[5]})
    return out


def rtokens(eng, st, rid=None):
    out = []
    for e in st.events():
        if e[0] == "read" and (rid is None or e[1] == rid):
            out.append({"k": "read", "n": Lin.const(e[2]), "val": e[3], "rid": e[1], "site": e[4]})
        elif e[0] == "skip" and (rid is None or e[1] == rid):
            out.append({"k": "skip", "n": e[2].lin, "rid": e[1], "site": e[3]})
        elif e[0] == "bytes" and (rid is None or e[1] == rid):
            out.append({"k": "bytes", "n": e[2].lin, "rid": e[1], "site": e[3], "ok": e[4], "start": e[5] if len(e) > 5 else None})
        elif e[0] == "sub" and (rid is None or e[1] == rid):
            out.append({"k": "sub", "n": e[2].lin, "rid": e[1], "new": e[3], "site": e[4]})
    return out


def fmt_tokens(toks):
    out = []
    for t in toks:
        if t["k"] == "int":
            out.append("u%d(%s)" % (t["n"].c * 8, t["prov"][1] if t["prov"][0] != "const" else "const %s" % t["prov"][1]))
        elif t["k"] == "bytes" and "desc" in t:
            out.append("bytes[%r](%s)" % (t["n"], t["desc"]))
        elif t["k"] == "read":
            out.append("read%d" % (t["n"].c * 8))
        elif t["k"] in ("skip", "sub", "bytes"):
            out.append("%s[%r]" % (t["k"], t["n"]))
        elif t["k"] == "patch":
            out.append("patch@%r[%r]" % (t["off"].lin, t["n"]))
    return out


def field_names(eng, v, vidx):
    adt, t = eng.adt_info(v.ty) if v.ty is not None else (None, None)
    if adt is not None and vidx < len(adt["variants"]):
        var = adt["variants"][vidx]
        return var["name"], [f["name"] for f in var["fields"]], adt["kind"]
    name = (t or {}).get("name", "")
    if name == "std::option::Option":
        return ["None", "Some"][vidx], None, "Enum"
    if name == "std::result::Result":
        return ["Ok", "Err"][vidx], None, "Enum"
    return str(vidx), None, "Struct"


def leaves(eng, st, v, prefix=""):
    """(field path, leaf value) of an aggregate value; vec handles are resolved to their VVec"""
    if isinstance(v, VAdt):
        if not v.vidx.is_const():
            yield (prefix + "#v", v)
            return
        vi = v.vidx.c
        vname, fnames, kind = field_names(eng, v, vi)
        fs = v.variants.get(vi, ())
        for i, f in enumerate(fs):
            if kind == "Enum":
                p = "%s.%s.%d" % (prefix, vname, i)
            elif fnames is not None and i < len(fnames) and not fnames[i].isdigit():
                p = "%s.%s" % (prefix, fnames[i])
            else:
                p = "%s.%d" % (prefix, i)
            yield from leaves(eng, st, f, p)
        if not fs and kind == "Enum":
            yield (prefix + "." + vname, None)
        return
    if isinstance(v, VRef):
        t = st.cells.get(v.cell)
        if isinstance(t, VVec):
            yield (prefix, t)
            return
    yield (prefix, v)


def conj_feasible(eng, st, extra):
    """is st's path condition together with the extra constraints not provably unsatisfiable?"""
    cons = list(st.cons) + list(extra)
    return not unsat(cons, eng.ranges)


def conj_entails(eng, st, extra, q):
    from lin import entails
    return entails(list(st.cons) + list(extra), q, eng.ranges)


def pin_divmods(st, assignments):
    """constraints fixing every memoised quotient/remainder whose dividend becomes constant
    under `assignments` (sym -> int); integer-exact where Fourier-Motzkin alone is not"""
    known = dict(assignments)
    out = []
    changed = True
    while changed:
        changed = False
        for (lkey, c), (q, r) in st.divmemo.items():
            if q in known:
                continue
            terms, const = lkey
            val = const
            ok = True
            for s, k in terms:
                if s not in known:
                    ok = False
                    break
                val += k * known[s]
            if ok:
                known[q] = val // c
                known[r] = val % c
                out.append(c_eq(Lin.sym(q), Lin.const(val // c)))
                out.append(c_eq(Lin.sym(r), Lin.const(val % c)))
                changed = True
    return out


# ---------------------------------------------------------------- canonical payload layouts

def _strip(name, prefix="self.*"):
    if name.startswith(prefix):
        name = name[len(prefix):]
    name = name.lstrip(".")
    return name.replace(".Some.0", "").replace("Some.0", "")


def _merge_zero(items):
    out = []
    for it in items:
        if it[0] == "zero" and out and out[-1][0] == "zero":
            out[-1] = ("zero", out[-1][1] + it[1])
        else:
            out.append(it)
    return out


def canon_writer(eng, st, toks, prefix="self.*"):
    items = []
    for t in toks:
        if t["k"] == "int":
            w = t["n"].c
            p = t["prov"]
            if p[0] == "const":
                items.append(("const", w, p[1]))
            elif p[0] == "sym":
                if p[1].endswith("#v"):
                    items.append(("enum", w, _strip(p[1][:-2], prefix)))
                else:
                    items.append(("int", w, _strip(p[1], prefix)))
            else:
                items.append(("expr", w, p[1]))
        elif t["k"] == "bytes":
            d = t["desc"]
            if d[0] == "const":
                if all(x == 0 for x in d[1]):
                    items.append(("zero", len(d[1])))
                else:
                    items.append(("constbytes", tuple(d[1])))
            elif d[0] == "elems":
                for e in d[1]:
                    if isinstance(e, VInt) and e.lin.is_const():
                        items.append(("zero", 1) if e.lin.c == 0 else ("const", 1, e.lin.c))
                    else:
                        p = int_prov(eng, e)
                        items.append(("int", 1, _strip(p[1], prefix)) if p[0] == "sym" else ("expr", 1, p[1]))
            elif d[0] == "sym" and len(d) == 2:
                items.append(("rest", _strip(d[1], prefix)))
            elif d[0] == "arr" and isinstance(d[3], Lin) and d[3].is_const() and d[3].c == 0 and d[4].is_const():
                items.append(("bytes", d[4].c, _strip(d[1] or "?", prefix)))
            else:
                items.append(("?", repr(d)[:80]))
        elif t["k"] == "patch":
            items.append(("patch",))
    return _merge_zero(items)


def canon_reader(eng, st, rt, payload):
    """canonical items of a decoder path; payload = decoded aggregate (Ok value)"""
    lv = list(leaves(eng, st, payload)) if payload is not None else []
    utf8 = [e for e in st.events() if e[0] == "utf8"]
    items = []
    for t in rt:
        if t["k"] == "read":
            w = t["n"].c
            f = None
            for p, v in lv:
                if isinstance(v, VInt) and v.lin == t["val"].lin:
                    f = _strip(p, "")
            items.append(("int", w, f) if f is not None else ("read", w))
        elif t["k"] == "skip":
            items.append(("zero", t["n"].c) if t["n"].is_const() else ("skipvar", repr(t["n"])))
        elif t["k"] == "bytes":
            if not t.get("ok", True):
                items.append(("bytes-none",))
                continue
            f = None
            kind = None
            isutf = None
            for p, v in lv:
                src = None
                if isinstance(v, VArr) and v.src and v.src[0] == "slice":
                    src = v.src[1]
                    k2 = "bytes"
                elif isinstance(v, VVec) and v.segs and len(v.segs) == 1:
                    src = v.segs[0][1]
                    k2 = "rest"
                elif isinstance(v, VSlice) and isinstance(v.base, tuple) and v.base[0] == "rd":
                    src = ("wire", v.base[1], v.start, v.len)
                    k2 = "rest"
                if src is not None and src[0] == "wire" and src[1] == t["rid"] and src[3] == t["n"] and \
                        (t.get("start") is None or src[2] == t["start"]):
                    f, kind = _strip(p, ""), k2
                    isutf = any(u[1] == src and u[2] for u in utf8)
            if t["n"].is_const():
                items.append(("bytes", t["n"].c, f))
            else:
                items.append(("rest", f, bool(isutf)))
        elif t["k"] == "sub":
            items.append(("sub", repr(t["n"])))
    return _merge_zero(items)


def spec_sequences(items):
    """all presence combinations of a spec item list: list of (sequence, present-set)"""
    seqs = [([], frozenset())]
    for it in items:
        if it["k"] == "opt":
            inner = spec_sequences(it["items"])
            new = []
            for s, pres in seqs:
                new.append((s, pres))
                for s2, p2 in inner:
                    new.append((s + s2, pres | p2 | {it["f"]}))
            seqs = new
        else:
            if it["k"] == "int":
                c = ("int", it["w"], it["f"])
            elif it["k"] == "enum":
                c = ("enum", it["w"], it["f"])
            elif it["k"] == "zero":
                c = ("zero", it["n"])
            elif it["k"] == "bytes":
                c = ("bytes", it["n"], it["f"])
            else:
                c = ("rest", it["f"], bool(it.get("utf8")))
            seqs = [(s + [c], pres) for s, pres in seqs]
    return seqs


def resolve_word(eng, st, val):
    """all (state, constant) alternatives of an emitted integer whose bits are constants or booleans
    decided (or decidable by a case split) on this path; None if some bit is unknown"""
    if isinstance(val, VInt) and val.lin.is_const():
        return [(st, val.lin.c)]
    bits = eng.bits_of(val) if isinstance(val, VInt) else None
    if bits is None:
        return None
    alts = [(st, 0)]
    for k, b in enumerate(bits):
        if b == 0:
            continue
        if b == 1:
            alts = [(s, w | (1 << k)) for s, w in alts]
            continue
        if b is None:
            return None
        f = ("bit", b[1], b[2]) if b[0] == "b" else (("not", ("bit", b[1], b[2])) if b[0] == "n" else b[1])
        new = []
        for s, w in alts:
            v = eng.bool_value(s, f)
            if v is True:
                new.append((s, w | (1 << k)))
            elif v is False:
                new.append((s, w))
            else:
                s1, s0 = s.fork(), s.fork()
                for s2 in eng.assume(s1, f, True):
                    new.append((s2, w | (1 << k)))
                for s2 in eng.assume(s0, f, False):
                    new.append((s2, w))
        alts = new
    return alts


# ---------------------------------------------------------------- octet tuples as big-endian values

def as_be(eng, st, desc):
    """(value Lin, n octets) when descriptor `desc` is n octets that are by construction the big-endian encoding of a
    value: a `to_be_bytes` result, or n individually computed octets each proven within 0..255 (then they ARE the
    base-256 digits of sum(e_i * 256^(n-1-i)) and the rule using this compares that sum with the intended value)."""
    if desc[0] == "be" and isinstance(desc[1], VInt):
        return desc[1].lin, desc[2]
    if desc[0] == "const":
        v = 0
        for b in desc[1]:
            v = v * 256 + b
        return Lin.const(v), len(desc[1])
    if desc[0] == "elems":
        v = Lin.const(0)
        for e in desc[1]:
            if not isinstance(e, VInt):
                return None
            lo, hi = eng.bounds(st, e.lin)
            if lo is None or hi is None or lo < 0 or hi > 255:
                return None
            v = v.scale(256) + e.lin
        return v, len(desc[1])
    return None
