"""lazy iterator model: one step of `Iterator::next` on an abstract iterator value, and the adaptor constructors.

Iterator values (absval.VIter(kind, items, pos, src, extra)):
    array      items = tuple of values, pos = int                      (by-value arrays, literal item lists)
    slice      src = VSlice, pos = Lin                                 (slice::Iter / IterMut: item = &elem)
    vec        src = vec cell, pos = Lin                               (vec::IntoIter: item = elem)
    zip        src = (VSlice, VSlice), items = common length, pos = Lin  (two slice iterators in lock step)
    chunks     src = VSlice, extra = chunk size (int), items = number of chunks (Lin), pos = Lin
    take       src = inner, pos = remaining count (Lin)
    enumerate  src = inner, pos = next index (Lin)
    zip2       src = (inner a, inner b)
    map / filter / filter_map   src = inner, extra = closure
    flatten    src = inner (items are Option/Result values)
    copied     src = inner (items are references)
plus std::ops::Range (an Adt with two integer fields) and std::iter::Rev (an Adt around an inner iterator).

`step` returns a list of (state, new iterator value, item) with item = END when the iterator is exhausted on that
path.  Sources of unknown length (filter over a slice) are abstracted: the position jumps to an unknown later
element that satisfies the predicate."""
from lin import Lin, c_le, c_lt, c_eq
from absval import *
from stubs import site_info, mk_option, split_variants

END = object()


def range_fields(eng, st, v):
    if isinstance(v, VAdt) and (eng.adt_name(v) or "").endswith("ops::Range"):
        fs = eng.variant_fields(st, v, 0)
        if fs and len(fs) == 2 and isinstance(fs[0], VInt) and isinstance(fs[1], VInt):
            return fs
    return None


def _tuple(*xs):
    return VAdt(None, Lin.const(0), {0: tuple(xs)})


def step(eng, st, site, it, ety=None, back=False):
    from stubs2 import elem_ref
    # Rev<I>
    if isinstance(it, VAdt) and (eng.adt_name(it) or "").endswith("Rev"):
        inner = eng.variant_fields(st, it, 0)[0]
        res = step(eng, st, site, inner, ety, not back)
        if res is None:
            return None
        return [(s2, None if i2 is None else VAdt(it.ty, it.vidx, {0: (i2,)}, it.base), item) for s2, i2, item in res]
    fs = range_fields(eng, st, it)
    if fs is not None:
        start, end = fs
        out = []
        s_some = st.fork()
        if eng.add(s_some, c_lt(start.lin, end.lin)):
            if not back:
                nv = VAdt(it.ty, it.vidx, {0: (VInt(start.ty, start.lin + 1), end)}, it.base)
                item = VInt(start.ty, start.lin)
            else:
                nv = VAdt(it.ty, it.vidx, {0: (start, VInt(end.ty, end.lin - 1))}, it.base)
                item = VInt(end.ty, end.lin - 1)
            s_some.emit(("range_next", back, item, site_info(site), start.lin, end.lin))
            out.append((s_some, nv, item))
        if eng.add(st, c_le(end.lin, start.lin)):
            out.append((st, None, END))
        return out
    if not isinstance(it, VIter):
        return None
    k = it.kind
    if k == "array" and it.items is not None:
        if it.pos < len(it.items):
            return [(st, VIter(k, it.items, it.pos + 1, it.src, it.extra), it.items[it.pos])]
        return [(st, None, END)]
    if k in ("slice", "zip", "vec", "chunks") and isinstance(it.pos, Lin):
        # exact cursor semantics: Some(element at pos) while pos < len
        if k == "slice":
            lens = [it.src.len]
        elif k == "zip":
            lens = [it.src[0].len, it.src[1].len]
        elif k == "chunks":
            lens = [it.items]
        else:
            vv = st.cells.get(it.src)
            lens = [vv.len] if isinstance(vv, VVec) else None
        if lens is not None:
            out = []
            s_some = st.fork()
            if all(eng.add(s_some, c_lt(it.pos, ln)) for ln in lens):
                if k == "slice":
                    item = elem_ref(eng, s_some, it.src, it.pos)
                elif k == "zip":
                    item = _tuple(elem_ref(eng, s_some, it.src[0], it.pos), elem_ref(eng, s_some, it.src[1], it.pos))
                elif k == "chunks":
                    s = it.src
                    item = VSlice(s.base, s.start + it.pos.scale(it.extra), Lin.const(it.extra), s.elem, s.is_str, s.mut)
                else:
                    vv = s_some.cells.get(it.src)
                    item = eng.unknown_elem(s_some, vv, it.pos)
                s_some.emit(("range_next", False, VInt(eng.usize_ty(), it.pos), site_info(site), it.pos, lens[0]))
                base = it.src.base if k in ("slice", "chunks") else (it.src[0].base if k == "zip" else it.src)
                s_some.emit(("iter_next", k, base, back, site_info(site)))
                out.append((s_some, VIter(k, it.items, it.pos + 1, it.src, it.extra), item))
            for ln in lens:
                s_no = st.fork()
                if eng.add(s_no, c_le(ln, it.pos)):
                    out.append((s_no, None, END))
            return out
    if k == "take":
        out = []
        s0 = st.fork()
        if eng.add(s0, c_le(it.pos, Lin.const(0))):
            out.append((s0, None, END))
        if eng.add(st, c_le(Lin.const(1), it.pos)):
            res = step(eng, st, site, it.src, ety, back)
            if res is None:
                return None
            for s2, i2, item in res:
                inner = it.src if i2 is None else i2
                out.append((s2, VIter("take", None, it.pos - 1, inner, None), item))
        return out
    if k == "enumerate":
        res = step(eng, st, site, it.src, None, back)
        if res is None:
            return None
        out = []
        for s2, i2, item in res:
            inner = it.src if i2 is None else i2
            if item is END:
                out.append((s2, VIter(k, None, it.pos, inner, None), END))
            else:
                out.append((s2, VIter(k, None, it.pos + 1, inner, None), _tuple(VInt(eng.usize_ty(), it.pos), item)))
        return out
    if k == "zip2":
        a, b = it.src
        ra = step(eng, st, site, a, None, back)
        if ra is None:
            return None
        out = []
        for s2, a2, x in ra:
            a3 = a if a2 is None else a2
            if x is END:
                out.append((s2, VIter(k, None, 0, (a3, b), None), END))
                continue
            rb = step(eng, s2, site, b, None, back)
            if rb is None:
                return None
            for s3, b2, y in rb:
                b3 = b if b2 is None else b2
                out.append((s3, VIter(k, None, 0, (a3, b3), None), END if y is END else _tuple(x, y)))
        return out
    if k == "chain2":
        a, b = it.src
        out = []
        if a is not None:
            ra = step(eng, st, site, a, ety, back)
            if ra is None:
                return None
            for s2, a2, x in ra:
                if x is END:
                    rb = step(eng, s2, site, b, ety, back)
                    if rb is None:
                        return None
                    for s3, b2, y in rb:
                        out.append((s3, VIter(k, None, 0, (None, b if b2 is None else b2), None), y))
                else:
                    out.append((s2, VIter(k, None, 0, (a if a2 is None else a2, b), None), x))
            return out
        rb = step(eng, st, site, b, ety, back)
        if rb is None:
            return None
        return [(s3, VIter(k, None, 0, (None, b if b2 is None else b2), None), y) for s3, b2, y in rb]
    if k == "from_fn":
        out = []
        for s2, r in eng.call_closure(st, site, it.extra, []):
            for s3, vi, fs in split_variants(eng, s2, r):
                if vi == 1:
                    out.append((s3, None, fs[0] if fs else VUnknown(None, eng.fresh("item"))))
                else:
                    out.append((s3, None, END))
        return out
    if k == "successors":
        # state: the pending Option<T>; Some(x) -> yields x, next state f(&x)
        out = []
        for s2, vi, fs in split_variants(eng, st, it.items):
            if vi != 1:
                out.append((s2, None, END))
                continue
            x = fs[0] if fs else VUnknown(None, eng.fresh("item"))
            cell = ("tmp", eng.fresh("succ"))
            s2.cells[cell] = x
            for s3, r in eng.call_closure(s2, site, it.extra, [VRef(cell, (), False)]):
                out.append((s3, VIter(k, r, 0, None, it.extra), x))
        return out
    if k == "map_while":
        if it.pos == 1:
            return [(st, None, END)]
        res = step(eng, st, site, it.src, None, back)
        if res is None:
            return None
        out = []
        for s2, i2, item in res:
            inner = it.src if i2 is None else i2
            if item is END:
                out.append((s2, VIter(k, None, 1, inner, it.extra), END))
                continue
            for s3, r in eng.call_closure(s2, site, it.extra, [item]):
                for s4, vi, fs in split_variants(eng, s3, r):
                    if vi == 1:
                        out.append((s4, VIter(k, None, 0, inner, it.extra), fs[0] if fs else VUnknown(None, eng.fresh("item"))))
                    else:
                        out.append((s4, VIter(k, None, 1, inner, it.extra), END))
        return out
    if k == "copied":
        res = step(eng, st, site, it.src, ety, back)
        if res is None:
            return None
        out = []
        for s2, i2, item in res:
            if item is not END and isinstance(item, VRef):
                item = eng.load(s2, item.cell, item.path)
            out.append((s2, VIter(k, None, 0, it.src if i2 is None else i2, None), item))
        return out
    if k == "map":
        res = step(eng, st, site, it.src, None, back)
        if res is None:
            return None
        out = []
        for s2, i2, item in res:
            nit = VIter(k, None, 0, it.src if i2 is None else i2, it.extra)
            if item is END:
                out.append((s2, nit, END))
                continue
            for s3, r in eng.call_closure(s2, site, it.extra, [item]):
                out.append((s3, nit, r))
        return out
    if k in ("filter", "filter_map", "flatten"):
        return _step_filtering(eng, st, site, it, ety, back, 0)
    # iterator of unknown shape: any number of items of the item type
    pos2 = (it.pos + 1) if isinstance(it.pos, (int, Lin)) else 0
    nit = VIter(it.kind, it.items, pos2, it.src, it.extra)
    st.emit(("iter_next", it.kind, it.src.base if isinstance(it.src, VSlice) else it.src, back, site_info(site)))
    s_none = st.fork()
    nm = eng.fresh("item")
    item = eng.symval(st, ety, nm) if ety is not None else VUnknown(None, nm)
    return [(s_none, nit, END), (st, nit, item)]


def _keep(eng, st, site, it, item):
    """decide whether `item` passes the filtering adaptor: list of (state, passes?, value handed on)"""
    k = it.kind
    if k == "filter":
        cell = ("tmp", eng.fresh("flt"))
        st.cells[cell] = item
        out = []
        for s2, r in eng.call_closure(st, site, it.extra, [VRef(cell, (), False)]):
            for s3, b in eng.split_bool(s2, r):
                out.append((s3, b, item))
        return out
    if k == "filter_map":
        out = []
        for s2, r in eng.call_closure(st, site, it.extra, [item]):
            for s3, vi, fs in split_variants(eng, s2, r):
                out.append((s3, vi == 1, fs[0] if (vi == 1 and fs) else None))
        return out
    # flatten over Option / Result items
    out = []
    good = 1
    if isinstance(item, VAdt) and (eng.adt_name(item) or "").endswith("Result"):
        good = 0
    for s3, vi, fs in split_variants(eng, st, item):
        out.append((s3, vi == good, fs[0] if (vi == good and fs) else None))
    return out


def _step_filtering(eng, st, site, it, ety, back, depth):
    inner = it.src
    finite = isinstance(inner, VIter) and inner.kind == "array"
    res = step(eng, st, site, inner, None, back)
    if res is None:
        return None
    out = []
    for s2, i2, item in res:
        nit = VIter(it.kind, None, 0, inner if i2 is None else i2, it.extra)
        if item is END:
            out.append((s2, nit, END))
            continue
        for s3, passes, val in _keep(eng, s2, site, it, item):
            if passes:
                out.append((s3, nit, val if val is not None else VUnknown(None, eng.fresh("kept"))))
            elif finite and depth < 16:
                r2 = _step_filtering(eng, s3, site, nit, ety, back, depth + 1)
                if r2 is None:
                    return None
                out.extend(r2)
            else:
                # a source of symbolic length: the element just taken failed the test; what follows is "the next
                # element that passes, or the end".  The skipped stretch is abstracted by letting the inner cursor
                # jump forward by an unknown amount.
                jumped = _jump(eng, s3, nit.src)
                if jumped is None:
                    return None
                r2 = _step_once_passing(eng, s3, site, VIter(it.kind, None, 0, jumped, it.extra), ety, back)
                if r2 is None:
                    return None
                out.extend(r2)
    return out


def _jump(eng, st, inner):
    """inner iterator with its cursor moved forward by an unknown number (>= 0) of elements"""
    if isinstance(inner, VIter) and isinstance(inner.pos, Lin) and inner.kind in ("slice", "vec", "chunks", "zip"):
        p = eng.new_int(eng.usize_ty(), "skipto", 0)
        st.cons.append(c_le(inner.pos, p.lin))
        return VIter(inner.kind, inner.items, p.lin, inner.src, inner.extra)
    if isinstance(inner, VIter) and inner.kind in ("copied", "enumerate", "take") and isinstance(inner.src, VIter):
        j = _jump(eng, st, inner.src)
        if j is None or inner.kind != "copied":
            return None
        return VIter(inner.kind, inner.items, inner.pos, j, inner.extra)
    return None


def _step_once_passing(eng, st, site, it, ety, back):
    """one step of a filtering adaptor after an unknown jump: either the end, or an element that passes"""
    res = step(eng, st, site, it.src, None, back)
    if res is None:
        return None
    out = []
    for s2, i2, item in res:
        nit = VIter(it.kind, None, 0, it.src if i2 is None else i2, it.extra)
        if item is END:
            out.append((s2, nit, END))
            continue
        for s3, passes, val in _keep(eng, s2, site, it, item):
            if passes:
                out.append((s3, nit, val if val is not None else VUnknown(None, eng.fresh("kept"))))
    return out
