"""E2 buffer shapes / chain dependence for AVP::hide and AVP::reveal (shared by C11 and C12)."""
from absval import *
from lin import Lin, c_eq, c_le, c_lt


def norm_key(eng, desc):
    """normalise an MD5 input descriptor into a list of abstract parts"""
    parts = desc[1] if desc[0] == "cat" else ((None, desc),)
    out = []
    for ln, d in parts:
        if d[0] == "slice" and isinstance(d[1], tuple) and d[1][0] == "be":
            out.append(("type16", d[1][1]))                       # the two attribute-type octets of the payload encoding
        elif d[0] == "be" and d[2] == 2:
            out.append(("type16", d[1]))                          # to_be_bytes(attribute_type)
        elif d[0] == "sym":
            out.append(("arg", d[1]))
        elif d[0] == "arr":
            if isinstance(d[1], str) and d[1].startswith(("h[", "arr$")):
                # a local array whose content is whatever an earlier round (or an earlier copy) left in it: not an argument
                out.append(("?", "a local array carried over (%s)" % d[1][:40]))
            else:
                out.append(("arg", d[1]))
        elif d[0] == "vec":
            out.append(("block", d[1], d[3], d[4]))                # buffer cell, start, len
        else:
            out.append(("?", repr(d)[:60]))
    return out


def unrecognised_keys(eng, X):
    """MD5 inputs of this function that the extraction cannot describe as a sequence of {attribute type, an argument,
    a 16-octet block of a buffer}: e.g. a key buffer whose content differs from iteration to iteration in a way the
    loop summary does not retain.  When there are any, the construction as a whole is not understood and the
    clauses about keys / XOR / chaining are reported as undecided rather than judged."""
    bad = []
    for st, did, d in X.md5s:
        nk = norm_key(eng, d)
        if not nk:
            bad.append("empty")
            continue
        for p in nk:
            if p[0] == "?":
                bad.append(p[1])
            elif p[0] == "block" and not (isinstance(p[3], Lin) and p[3].is_const() and p[3].c == 16):
                bad.append("a buffer region of %r octets" % (p[3],))
    return sorted(set(bad))


class Extract:
    """facts about one of hide / reveal, extracted from one abstract run"""

    def __init__(self, eng, fn, self_value=None, state=None):
        self.eng = eng
        self.loops = []          # in execution order: dict(head, back=[(state, events since head)], H)
        self.first_md5_state = None
        self.md5s = []
        self.entry = {}          # loop-head symbol -> its value on loop entry

        def on_loop(frame, head, H, res, havoc, lid):
            # loops of the function itself and of the helpers it calls (e.g. an extracted `xor_chunk`)
            if eng.mute or (frame.key != fn["key"] and frame.ctxname.split(" > ")[0] != fn["name"]):
                return
            ent_ = {}
            for (cell, kp), kind in havoc.items():
                if kind == "int":
                    self.entry[eng.hsym(lid, cell, kp)] = eng._entry.get((lid, (cell, kp)))
                    ent_[eng.hsym(lid, cell, kp)] = eng._entry.get((lid, (cell, kp)))
            self.loops.append({"entry": ent_, "havoc": dict(havoc), "head": head, "lid": lid, "done": H.ghost.get("loops_done", ()), "H": H, "back": [(b, b.events()[H.ntrace:]) for b in res["back"]], "exits": res["exit"]})

        def on_md5(st, site, did, d):
            self.md5s.append((st.fork(), did, d))
        eng.hooks["loop"] = on_loop
        eng.hooks["md5"] = on_md5
        args = [self_value, None, None] + ([None, None] if fn["body"]["arg_count"] == 5 else [])
        self.rets = eng.analyse(fn["key"], args=args, state=state, name=fn["name"])

    def xor_loops(self):
        """loops whose body XORs a buffer element with a digest element: list of dicts"""
        out = []
        for i, lp in enumerate(self.loops):
            for b, evs in lp["back"]:
                xs = [e for e in evs if e[0] == "xor"]
                rn = [e for e in evs if e[0] == "range_next"]
                if xs and len(xs) == 1:
                    # the octet counter: the loop item when the loop is an iterator loop, else the digest index itself
                    j = rn[-1][2] if rn else VInt(None, xs[0][4])
                    out.append({"order": i, "head": lp["head"], "lid": lp["lid"], "done": lp["done"], "state": b, "xor": xs[0], "j": j, "H": lp["H"],
                                "range": (rn[-1][4], rn[-1][5]) if rn and len(rn[-1]) > 5 else None})
        return out

    def chain_loops(self):
        """outer loops whose body computes an MD5 over [.., buffer block]: list of dicts"""
        out = []
        for i, lp in enumerate(self.loops):
            for b, evs in lp["back"]:
                ms = [e for e in evs if e[0] == "md5"]
                rn = [e for e in evs if e[0] == "range_next"]
                if not ms:
                    continue
                nk0 = norm_key(self.eng, ms[-1][2])
                blk0 = [p for p in nk0 if p[0] == "block"]
                start0 = blk0[0][2] if len(blk0) == 1 else None
                sem_back = walk_direction(self.eng, lp, b, start0) if start0 is not None else None
                if rn:
                    out.append({"order": i, "head": lp["head"], "lid": lp["lid"], "done": lp["done"], "state": b, "md5": ms[-1], "item": rn[0][2],
                                "back": sem_back if sem_back is not None else rn[0][1], "H": lp["H"], "loop": lp, "start": start0,
                                "range": (rn[0][4], rn[0][5]) if len(rn[0]) > 5 else None})
                    continue
                # hand-written counter loop: block index from the key block's start, direction from the counter's step
                nk = norm_key(self.eng, ms[-1][2])
                blk = [p for p in nk if p[0] == "block"]
                if len(blk) != 1:
                    continue
                start = blk[0][2]
                if any(v % 16 for v in start.t.values()) or start.c % 16:
                    # a running offset instead of a block counter: the block index is offset / 16 when the offset is
                    # proven a multiple of 16 (stride invariant of the loop)
                    q_, r_ = self.eng.divmod_const(b, start, 16)
                    if not self.eng.ent(b, c_eq(r_, Lin.const(0))):
                        continue
                    item = q_ + 1
                    back = sem_back
                    if back is None:
                        continue
                    out.append({"order": i, "head": lp["head"], "lid": lp["lid"], "done": lp["done"], "state": b, "md5": ms[-1], "item": VInt(None, item), "back": back,
                                "H": lp["H"], "range": None, "loop": lp, "start": start})
                    continue
                item = Lin({s_: v // 16 for s_, v in start.t.items()}, start.c // 16 + 1)
                back = None
                for sym in item.t:
                    # which loop-carried leaf is this symbol, and how does it move on the back edge?
                    for (cell, kp), kind in lp.get("havoc", {}).items():
                        if kind == "int" and self.eng.hsym(lp["lid"], cell, kp) == sym:
                            nb = self.eng.leaf_lin(b, cell, kp)
                            if nb is not None:
                                if self.eng.ent(b, c_eq(nb, Lin.sym(sym) + 1)):
                                    back = False
                                elif self.eng.ent(b, c_eq(nb, Lin.sym(sym) - 1)):
                                    back = True
                if back is None:
                    continue
                out.append({"order": i, "head": lp["head"], "lid": lp["lid"], "done": lp["done"], "state": b, "md5": ms[-1], "item": VInt(None, item), "back": back,
                            "H": lp["H"], "range": None, "loop": lp, "start": start})
        return out


def plaintext_facts(eng, X, dests):
    """plaintext buffer shape of hide at the time of the first key: list of dicts per path"""
    out = []
    for st, did, d in X.md5s:
        nk = norm_key(eng, d)
        if not (nk and nk[0][0] == "type16"):
            continue
        for cell in dests:
            v = st.cells.get(cell)
            if not isinstance(v, VVec):
                continue
            f = {"state": st, "vec": v, "known": bool(v.segs), "problems": []}
            out.append(f)
            if not v.segs:
                f["problems"].append("plaintext content unknown at the first key")
                continue
            segs = []
            for sl, sd in v.segs:                      # flatten concatenations
                if sd[0] == "cat":
                    segs.extend(sd[1])
                else:
                    segs.append((sl, sd))
            f["segs"] = segs
            lenf = segs[0][1]
            body = Lin.const(0)
            rest = []
            for i, (sl, sd) in enumerate(segs[1:]):
                if sd[0] in ("sym", "arr") and ("length_padding" in str(sd[1]) or "alignment_padding" in str(sd[1])):
                    rest = segs[1 + i:]
                    break
                body = body + sl
            f["lenfield"] = lenf
            f["body"] = body
            lp = [s for s in rest if s[1][0] == "sym" and s[1][1] == "length_padding"]
            ap = [s for s in rest if s[1][0] == "arr" and "alignment_padding" in str(s[1][1])]
            f["lp"] = lp[0] if lp else None
            f["ap"] = ap[0] if ap else None
            f["order_ok"] = [("lp" if s in lp else "ap" if s in ap else "?") for s in rest] in (["lp", "ap"], ["lp"])
            import layout
            be = layout.as_be(eng, st, lenf)        # a to_be_bytes result, or two computed octets that rejoin to a value
            if be is None or be[1] != 2:
                f["problems"].append("plaintext does not start with a 16-bit big-endian length")
            elif not eng.ent(st, c_eq(be[0], body + 6)):
                f["problems"].append("original-length subfield %r is not 6 + |value| (%r)" % (be[0], body))
            if not lp:
                f["problems"].append("length padding not in the plaintext")
            if not f["order_ok"]:
                f["problems"].append("padding order is not length padding then alignment padding at the end")
            pre = Lin.const(2) + body + (lp[0][0] if lp else Lin.const(0))
            p = ap[0][0] if ap else Lin.const(0)
            lo, hi = eng.bounds(st, p)
            q, r = eng.divmod_const(st, pre + p, 16)
            f["align"] = (lo, hi)
            if not (lo is not None and lo >= 0 and hi is not None and hi <= 15):
                f["problems"].append("alignment padding %r (bounds %s..%s) is not within 0..15" % (p, lo, hi))
            if not eng.ent(st, c_eq(r, Lin.const(0))) or not eng.ent(st, c_eq(v.len, pre + p)) or not eng.ent(st, c_le(Lin.const(16), v.len)):
                f["problems"].append("plaintext length %r is not proven the positive multiple of 16 reached by the padding" % (v.len,))
    return out


def entry_value(X, lin):
    """value of a loop-carried expression on loop entry (substitute the head symbols by their entry values)"""
    out = Lin.const(lin.c)
    for sym, k in lin.t.items():
        e = X.entry.get(sym)
        if e is None:
            out = out + Lin.sym(sym).scale(k)
        else:
            out = out + e.scale(k)
    return out


def subst_heads(eng, lp, st, lin):
    """`lin` with the head symbols of loop `lp` replaced by the values their leaves hold in state `st` (a back-edge
    or exit state of that loop); symbols that are not loop-carried in `lp` stay.  None if a leaf cannot be read."""
    out = Lin.const(lin.c)
    names = {}
    for (cell, kp), kind in lp.get("havoc", {}).items():
        if kind == "int":
            names[eng.hsym(lp["lid"], cell, kp)] = (cell, kp)
    for sym, k in lin.t.items():
        leaf = names.get(sym)
        if leaf is None:
            out = out + Lin.sym(sym).scale(k)
            continue
        nv = eng.leaf_lin(st, leaf[0], leaf[1])
        if nv is None:
            return None
        out = out + nv.scale(k)
    return out


def walk_direction(eng, lp, b, lin, step=16):
    """does `lin` (a block start) move up or down by one block from one iteration of loop `lp` to the next?
    False = upwards, True = downwards, None = not decided"""
    nxt = subst_heads(eng, lp, b, lin)
    if nxt is None:
        return None
    if eng.ent(b, c_eq(nxt, lin + step)):
        return False
    if eng.ent(b, c_eq(nxt, lin - step)):
        return True
    return None


def coverage_semantic(eng, X, chain):
    """(problems, undecided) about the blocks keyed by the chain: with B = key block start + 16 (the block that is XORed
    with that key), an upward walk must start at B = 16 and leave the loop with B = |buffer|; a downward walk must
    start at B = |buffer| - 16 and leave with B = 0"""
    probs, und = [], []
    for c in chain:
        lp = c.get("loop")
        st = c["state"]
        buf = st.cells.get(c["buf"]) if c.get("buf") is not None else None
        k = c.get("start")
        if lp is None or k is None or not isinstance(buf, VVec) or c.get("back") is None:
            und.append("block coverage of a chain loop (walk not understood)")
            continue
        B = k + 16
        B0 = Lin.const(B.c)
        for sym_, k_ in B.t.items():
            e_ = lp.get("entry", {}).get(sym_)
            B0 = B0 + (e_.scale(k_) if e_ is not None else Lin.sym(sym_).scale(k_))
        exits = [subst_heads(eng, lp, se, B) for se, _bb in lp.get("exits", [])]
        if not exits or any(e is None for e in exits):
            und.append("block coverage of a chain loop (exit state not understood)")
            continue
        H = lp["H"]
        if c["back"] is False:
            if not eng.ent(H, c_eq(B0, Lin.const(16))):
                probs.append("chain does not start at block 1 (first block keyed at offset %r)" % (B0,))
            for (se, _bb), e in zip(lp["exits"], exits):
                if not eng.ent(se, c_eq(e, buf.len)):
                    probs.append("chain does not reach the last block: it stops with the next block at %r of a %r-octet buffer" % (e, buf.len))
        else:
            if not eng.ent(H, c_eq(B0 + 16, buf.len)):
                probs.append("downward chain does not start at the last block (starts at offset %r of %r)" % (B0, buf.len))
            for (se, _bb), e in zip(lp["exits"], exits):
                if not eng.ent(se, c_eq(e, Lin.const(0))):
                    probs.append("downward chain does not reach block 1 (stops with the next block at %r)" % (e,))
    return sorted(set(probs)), sorted(set(und))


def coverage_facts(eng, X, chain, xs):
    """problems with the ranges walked by the chain loops (must be blocks 1..n-1, n = |buffer|/16) and by the
    XOR loops (must be j = 0..16)"""
    probs = []
    for c in chain:
        st = c["state"]
        rg = c.get("range")
        buf = st.cells.get(c["buf"]) if c.get("buf") is not None else None
        if rg is None or not isinstance(buf, VVec):
            continue        # hand-written counter loop: coverage not decided (noted by the caller), never an alarm
        start, end = rg
        s0, e0 = entry_value(X, start), entry_value(X, end)
        if not eng.ent(st, c_eq(s0, Lin.const(1))):
            probs.append("chain does not start at block 1 (entry %r)" % (s0,))
        if not eng.ent(st, c_eq(e0.scale(16), buf.len)):
            probs.append("chain does not reach the last block: it stops at block %r of a %r-octet buffer" % (e0, buf.len))
    for x in xs:
        rg = x.get("range")
        if rg is None:
            continue
        s0, e0 = entry_value(X, rg[0]), entry_value(X, rg[1])
        if not (s0 == Lin.const(0) and eng.ent(x["state"], c_eq(e0, Lin.const(16)))):
            probs.append("XOR loop covers %r..%r, not 0..16" % (s0, e0))
    return sorted(set(probs))
