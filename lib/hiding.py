"""E2 buffer shapes / chain dependence for AVP::hide and AVP::reveal (shared by C11 and C12)."""
from absval import *
from lin import Lin, c_eq, c_le, c_lt


def norm_key(eng, desc):
    """normalise an MD5 input descriptor into a list of abstract parts"""
    parts = desc[1] if desc[0] == "cat" else ((None, desc),)
    out = []
    for ln, d in parts:
        if d[0] == "slice" and isinstance(d[1], tuple) and d[1][0] == "be":
            out.append(("type16", d[1][1]))                       # the two attribute-type octets of the payload encoding
        elif d[0] == "be" and d[2] == 2:
            out.append(("type16", d[1]))                          # to_be_bytes(attribute_type)
        elif d[0] == "sym":
            out.append(("arg", d[1]))
        elif d[0] == "arr":
            out.append(("arg", d[1]))
        elif d[0] == "vec":
            out.append(("block", d[1], d[3], d[4]))                # buffer cell, start, len
        else:
            out.append(("?", repr(d)[:60]))
    return out


class Extract:
    """facts about one of hide / reveal, extracted from one abstract run"""

    def __init__(self, eng, fn, self_value=None, state=None):
        self.eng = eng
        self.loops = []          # in execution order: dict(head, back=[(state, events since head)], H)
        self.first_md5_state = None
        self.md5s = []

        def on_loop(frame, head, H, res, havoc, lid):
            if eng.mute or frame.key != fn["key"]:
                return
            self.loops.append({"head": head, "lid": lid, "done": H.ghost.get("loops_done", ()), "H": H, "back": [(b, b.events()[H.ntrace:]) for b in res["back"]], "exits": res["exit"]})

        def on_md5(st, site, did, d):
            self.md5s.append((st.fork(), did, d))
        eng.hooks["loop"] = on_loop
        eng.hooks["md5"] = on_md5
        args = [self_value, None, None] + ([None, None] if fn["body"]["arg_count"] == 5 else [])
        self.rets = eng.analyse(fn["key"], args=args, state=state, name=fn["name"])

    def xor_loops(self):
        """loops whose body XORs a buffer element with a digest element: list of dicts"""
        out = []
        for i, lp in enumerate(self.loops):
            for b, evs in lp["back"]:
                xs = [e for e in evs if e[0] == "xor"]
                rn = [e for e in evs if e[0] == "range_next"]
                if xs and len(xs) == 1 and rn:
                    out.append({"order": i, "head": lp["head"], "lid": lp["lid"], "done": lp["done"], "state": b, "xor": xs[0], "j": rn[-1][2], "H": lp["H"]})
        return out

    def chain_loops(self):
        """outer loops whose body computes an MD5 over [.., buffer block]: list of dicts"""
        out = []
        for i, lp in enumerate(self.loops):
            for b, evs in lp["back"]:
                ms = [e for e in evs if e[0] == "md5"]
                rn = [e for e in evs if e[0] == "range_next"]
                if ms and rn:
                    out.append({"order": i, "head": lp["head"], "lid": lp["lid"], "done": lp["done"], "state": b, "md5": ms[-1], "item": rn[0][2], "back": rn[0][1], "H": lp["H"]})
        return out
