"""Loader and pretty-printer for the E0 fact file (facts.json)."""
import json


class Facts:
    def __init__(self, path):
        with open(path) as fh:
            self.raw = json.load(fh)
        r = self.raw
        self.types = r["types"]
        self.fns = {f["key"]: f for f in r["fns"]}
        import synth
        for f in synth.all_fns():        # hand-written bodies for std iterator consumers (see lib/synth.py)
            self.fns[f["key"]] = f
        self.adts = {a["key"]: a for a in r["adts"]}
        self.adts_by_name = {a["name"]: a for a in r["adts"]}
        self.consts = {c["key"]: c for c in r["consts"]}
        self.statics = {s["key"]: s for s in r["statics"]}
        self.traits = {t["name"]: t for t in r["traits"]}
        self.impls = r["impls"]
        self.crate = r["crate"]
        self.ptr_bits = r["ptr_bits"]
        # closures by parent
        self.closures_of = {}
        for f in r["fns"]:
            if f["kind"] == "Closure":
                self.closures_of.setdefault(f["parent"], []).append(f["key"])

    # ---- types
    def ty(self, i):
        return self.types[i]

    def ty_str(self, i):
        t = self.types[i]
        k = t["k"]
        if k == "int":
            return t["n"]
        if k in ("bool", "char", "str", "never"):
            return {"never": "!"}.get(k, k)
        if k == "adt":
            a = ",".join(self.ty_str(x) if isinstance(x, int) else str(x) for x in t["args"])
            return t["key"].split("::")[-1] + ("<" + a + ">" if a else "")
        if k == "ref":
            return ("&mut " if t["mut"] else "&") + self.ty_str(t["to"])
        if k == "ptr":
            return ("*mut " if t["mut"] else "*const ") + self.ty_str(t["to"])
        if k == "slice":
            return "[" + self.ty_str(t["of"]) + "]"
        if k == "array":
            return "[%s; %s]" % (self.ty_str(t["of"]), t["len"])
        if k == "tuple":
            return "(" + ",".join(self.ty_str(x) for x in t["of"]) + ")"
        if k == "param":
            return t["name"]
        if k == "closure":
            return "{closure " + t["key"].split("::", 1)[-1] + "}"
        if k == "fndef":
            return "fn " + t["key"]
        return t.get("s", k)

    def adt_of_ty(self, i):
        t = self.types[i]
        if t["k"] == "adt":
            return self.adts.get(t["key"])
        return None

    # ---- lookup helpers
    def fn_by_self_and_item(self, adt_key, item, trait=None):
        """find fn whose container self type is the adt `adt_key` and name `item`"""
        out = []
        for f in self.raw["fns"]:
            if f.get("item") != item or "self_ty" not in f:
                continue
            t = self.types[f["self_ty"]]
            if t["k"] == "adt" and t["key"] == adt_key:
                if trait is None and f.get("container") == "inherent":
                    out.append(f)
                elif trait is not None and f.get("trait") == trait:
                    out.append(f)
        return out

    # ---- pretty printer
    def place_str(self, p):
        s = "_%d" % p["l"]
        for e in p["p"]:
            if e == "deref":
                s = "(*%s)" % s
            elif "f" in e:
                s = "%s.%d" % (s, e["f"])
            elif "idx" in e:
                s = "%s[_%d]" % (s, e["idx"])
            elif "cidx" in e:
                s = "%s[%s%d of %d]" % (s, "-" if e["from_end"] else "", e["cidx"], e["min"])
            elif "dc" in e:
                s = "(%s as %s)" % (s, e["name"] if e["name"] else e["dc"])
            elif "sub_from" in e:
                s = "%s[%d..%s%d]" % (s, e["sub_from"], "-" if e["from_end"] else "", e["sub_to"])
            else:
                s = "%s.<%s>" % (s, e)
        return s

    def const_str(self, c):
        if "fn" in c:
            return "fn:" + c["fn"]["name"]
        if "bits" in c:
            return "%d_%s" % (c["bits"], self.ty_str(c["ty"]))
        if "promoted" in c:
            return "promoted[%d]" % c["promoted"]
        if "bytes" in c:
            try:
                return repr(bytes(c["bytes"]).decode())
            except Exception:
                return "bytes%r" % (c["bytes"],)
        if "zst" in c:
            return "zst:" + self.ty_str(c["ty"])
        return "const?%r" % (c,)

    def op_str(self, o):
        if "copy" in o:
            return self.place_str(o["copy"])
        if "move" in o:
            return "move " + self.place_str(o["move"])
        if "const" in o:
            return self.const_str(o["const"])
        return "?%r" % (o,)

    def rv_str(self, r):
        k = r["k"]
        if k == "use":
            return self.op_str(r["op"])
        if k == "ref":
            return ("&mut " if r["mut"] else "&") + self.place_str(r["place"])
        if k == "rawptr":
            return ("&raw mut " if r["mut"] else "&raw const ") + self.place_str(r["place"])
        if k == "cast":
            return "%s as %s (%s)" % (self.op_str(r["op"]), self.ty_str(r["ty"]), r["kind"])
        if k == "bin":
            return "%s(%s, %s)" % (r["op"], self.op_str(r["l"]), self.op_str(r["r"]))
        if k == "un":
            return "%s(%s)" % (r["op"], self.op_str(r["x"]))
        if k == "discr":
            return "discriminant(%s)" % self.place_str(r["place"])
        if k == "agg":
            kd = r["kind"]
            ops = ", ".join(self.op_str(o) for o in r["ops"])
            if kd["agg"] == "adt":
                return "%s::%s{%s}" % (kd["name"].split("::")[-1], kd["vname"], ops)
            if kd["agg"] == "closure":
                return "closure %s{%s}" % (kd["key"].split("::", 1)[-1], ops)
            return "%s[%s]" % (kd["agg"], ops)
        if k == "repeat":
            return "[%s; %s]" % (self.op_str(r["op"]), r["n"])
        return "?%r" % (r,)

    def func_str(self, f):
        if "indirect" in f:
            return "indirect " + self.op_str(f["indirect"])
        s = f["name"]
        if "resolved" in f and f["resolved"]["key"] != f["key"]:
            s += "  => " + f["resolved"]["name"]
        return s

    def pp_body(self, body, out):
        for i, t in enumerate(body["locals"]):
            out.append("    let _%d: %s;" % (i, self.ty_str(t)))
        for n in body["names"]:
            out.append("    debug %s => %s" % (n["name"], self.place_str(n["place"])))
        for bi, b in enumerate(body["blocks"]):
            out.append("  bb%d%s:" % (bi, " (cleanup)" if b["cleanup"] else ""))
            for st in b["stmts"]:
                if st["s"] == "assign":
                    out.append("    %s = %s" % (self.place_str(st["place"]), self.rv_str(st["rv"])))
                elif st["s"] == "setdiscr":
                    out.append("    discriminant(%s) = %d" % (self.place_str(st["place"]), st["variant"]))
                else:
                    out.append("    %s" % (st,))
            t = b["term"]
            k = t["t"]
            if k == "goto":
                out.append("    goto bb%d" % t["target"])
            elif k == "switch":
                out.append("    switch %s [%s, otherwise bb%d]" % (
                    self.op_str(t["discr"]),
                    ", ".join("%d: bb%d" % (v, bb) for v, bb in t["targets"]), t["otherwise"]))
            elif k == "call":
                out.append("    %s = %s(%s) -> %s   [%s]" % (
                    self.place_str(t["dest"]), self.func_str(t["func"]),
                    ", ".join(self.op_str(a) for a in t["args"]),
                    "bb%d" % t["target"] if t["target"] is not None else "!", t["ln"]))
            elif k == "assert":
                m = t["msg"]
                out.append("    assert(%s == %s, %s) -> bb%d  [%s]" % (
                    self.op_str(t["cond"]), t["expected"], m["kind"] + (":" + m["op"] if "op" in m else ""),
                    t["target"], t["ln"]))
            elif k == "drop":
                out.append("    drop(%s) -> bb%d" % (self.place_str(t["place"]), t["target"]))
            else:
                out.append("    %s" % k)

    def pp_fn(self, key):
        f = self.fns[key]
        out = ["fn %s  [%s]  (%s)" % (f["key"], f["name"], f["ln"])]
        self.pp_body(f["body"], out)
        for i, p in enumerate(f["promoted"]):
            out.append(" promoted[%d]:" % i)
            self.pp_body(p, out)
        return "\n".join(out)


if __name__ == "__main__":
    import sys
    fx = Facts(sys.argv[1])
    pat = sys.argv[2]
    for k in fx.fns:
        if pat in k or pat in fx.fns[k]["name"]:
            print(fx.pp_fn(k))
            print()


# ---------------------------------------------------------------- semantic lookups (anchors)

def _adt_key_of(fx, tyid):
    t = fx.types[tyid]
    return t["key"] if t["k"] == "adt" else None


def find_fn(fx, adt_suffix, item, trait_suffix=None):
    """function `item` whose impl self type is the ADT whose key ends with adt_suffix"""
    for f in fx.raw["fns"]:
        if f.get("item") != item or "self_ty" not in f:
            continue
        k = _adt_key_of(fx, f["self_ty"])
        if k is None or not (k == adt_suffix or k.endswith("::" + adt_suffix)):
            continue
        if trait_suffix is None:
            if f.get("container") == "inherent":
                return f
        elif f.get("trait", "").endswith(trait_suffix):
            return f
    return None


def free_fn(fx, path_suffix):
    for f in fx.raw["fns"]:
        if f["kind"] == "Fn" and (f["key"] == path_suffix or f["key"].endswith("::" + path_suffix)):
            return f
    return None


def avp_variants(fx):
    """[(variant name, payload adt key, payload type id)] of the AVP enum"""
    a = None
    for k, adt in fx.adts.items():
        if k.endswith("::avp::AVP") and adt["kind"] == "Enum":
            a = adt
    if a is None:
        return []
    out = []
    for v in a["variants"]:
        if len(v["fields"]) == 1:
            ty = v["fields"][0]["ty"]
            out.append((v["name"], _adt_key_of(fx, ty), ty))
    return out


def closures_of(fx, key):
    return sorted(k for k in fx.fns if k.startswith(key + "::{closure#"))
