"""lenflow: control flow -- blocks, terminators, calls, loops (Houdini invariants)."""
from lin import Lin, c_le, c_lt, c_eq, c_ne, entails, cstr
from absval import *
from lf_ops import Alts
from lf_mem import children, with_child

READER_TRAIT = "common::reader::Reader"
WRITER_TRAIT = "common::writer::Writer"


class ExecMixin:
    # ------------------------------------------------------------ frames
    def new_frame(self, fn, body, parent, persistent=False, tag=None):
        self.counter += 1
        depth = (parent.depth + 1) if parent is not None else 0
        if depth > 60:
            raise Abort("call depth")
        short = "::".join(fn["name"].replace("::<T>", "").split("::")[-2:])
        ctxname = fn["name"] if parent is None else parent.ctxname + " > " + (tag or short)
        if id(body) not in self.fn_rot:
            self.rot_info(fn, body)
        return Frame_(fn, body, self.counter, depth, ctxname, persistent)

    def loops_of(self, fn, body):
        """natural loops: head -> set of blocks"""
        key = id(body)
        r = self.fn_loops.get(key)
        if r is not None:
            return r
        blocks = body["blocks"]
        succ = {}
        for i, b in enumerate(blocks):
            if b["cleanup"]:
                succ[i] = []
                continue
            t = b["term"]
            k = t["t"]
            s = []
            if k == "goto":
                s = [t["target"]]
            elif k == "switch":
                s = [x[1] for x in t["targets"]] + [t["otherwise"]]
            elif k in ("call",):
                s = [t["target"]] if t["target"] is not None else []
            elif k in ("assert", "drop"):
                s = [t["target"]]
            succ[i] = [x for x in s if not blocks[x]["cleanup"]]
        # DFS for back edges
        color = {}
        back = []
        stack = [(0, iter(succ[0]))]
        color[0] = 1
        while stack:
            n, it = stack[-1]
            adv = False
            for m in it:
                if color.get(m, 0) == 0:
                    color[m] = 1
                    stack.append((m, iter(succ[m])))
                    adv = True
                    break
                elif color[m] == 1:
                    back.append((n, m))
            if not adv:
                color[n] = 2
                stack.pop()
        pred = {}
        for a, ss in succ.items():
            for b_ in ss:
                pred.setdefault(b_, []).append(a)
        loops = {}
        for src, head in back:
            body_set = loops.setdefault(head, {head})
            work = [src]
            while work:
                x = work.pop()
                if x in body_set:
                    continue
                body_set.add(x)
                work.extend(pred.get(x, []))
        self.fn_loops[key] = loops
        return loops

    def rot_info(self, fn, body):
        """rotated loops: the value the loop condition inspects is produced by a call made just before the loop and by
        the same call at the end of the body (`let mut next = f(r); while let Some(x) = next { ..; next = f(r); }`).
        Returns {"heads": {head: {"in": call blocks inside the loop, "out": outside}}, "sites": all such call blocks,
        "chain": the blocks between those calls and the head (moves, drops, gotos only)} or None."""
        key = id(body)
        if key in self.fn_rot:
            return self.fn_rot[key]
        loops = self.loops_of(fn, body)
        blocks = body["blocks"]
        info = None
        if loops:
            succ_of = {}
            for i, b in enumerate(blocks):
                t = b["term"]
                k = t["t"]
                if b["cleanup"]:
                    succ_of[i] = []
                elif k == "goto":
                    succ_of[i] = [t["target"]]
                elif k == "switch":
                    succ_of[i] = [x[1] for x in t["targets"]] + [t["otherwise"]]
                elif k in ("call", "assert", "drop"):
                    succ_of[i] = [t["target"]] if t.get("target") is not None else []
                else:
                    succ_of[i] = []
            pred = {}
            for a_, ss in succ_of.items():
                for b_ in ss:
                    pred.setdefault(b_, []).append(a_)

            def trivial(i):
                b = blocks[i]
                if b["term"]["t"] not in ("goto", "drop") or len(succ_of[i]) != 1:
                    return False
                return all(st_["s"] != "assign" or st_["rv"]["k"] == "use" for st_ in b["stmts"])
            heads = {}
            sites, chain = set(), set()
            for head, lset in loops.items():
                calls = []
                ch = set()
                work = [(p_, head) for p_ in pred.get(head, [])]
                seen = set()
                while work:
                    p_, nxt = work.pop()
                    if p_ in seen:
                        continue
                    seen.add(p_)
                    t = blocks[p_]["term"]
                    if t["t"] == "call" and t.get("target") == nxt and isinstance(t.get("func"), dict) and t["func"].get("key"):
                        calls.append(p_)
                    elif trivial(p_) and p_ != head:
                        ch.add(p_)
                        work.extend((q_, p_) for q_ in pred.get(p_, []))
                inside = [c for c in calls if c in lset]
                outside = [c for c in calls if c not in lset]
                if inside and outside:
                    keys = set(blocks[c]["term"]["func"]["key"] for c in inside + outside)
                    if len(keys) == 1:
                        heads[head] = {"in": set(inside), "out": set(outside)}
                        sites.update(inside + outside)
                        chain.update(ch)
            if heads:
                info = {"heads": heads, "sites": sites, "chain": chain}
        self.fn_rot[key] = info
        return info

    # ------------------------------------------------------------ exploration
    def explore(self, frame, items, loophead=None, loopset=None):
        """run states forward inside `frame`.  items: list of (st, bb).
        returns {'ret': [(st, val)], 'back': [st], 'exit': [(st, bb)]}"""
        out = {"ret": [], "back": [], "exit": []}
        loops = self.loops_of(frame.fn, frame.body)
        work = list(items)
        while work:
            st, bb = work.pop()
            while True:
                if loophead is not None:
                    if bb == loophead:
                        out["back"].append(st)
                        break
                    if bb not in loopset:
                        out["exit"].append((st, bb))
                        break
                if bb in loops and bb != loophead:
                    res = self.analyse_loop(frame, st, bb, loops[bb])
                    out["ret"].extend(res["ret"])
                    work.extend(res["exit"])
                    break
                self.stats["blocks"] += 1
                if self._trial is not None:
                    self._trial -= 1
                    if self._trial < 0:
                        raise TrialOver()
                if self.stats["blocks"] > self.opts.get("max_blocks", 30000000):
                    raise Abort("block budget exceeded")
                try:
                    succs = self.exec_block(frame, st, bb)
                except Abort as e:
                    if "budget" in str(e) or "call depth" in str(e):
                        raise
                    # a construct outside the modelled fragment: this path is left unexplored (recorded, never an alarm)
                    self.aborted[str(e)[:160]] += 1
                    break
                nxt = None
                for kind, s2, x in succs:
                    if kind == "ret":
                        out["ret"].append((s2, x))
                    elif nxt is None:
                        nxt = (s2, x)
                    else:
                        work.append((s2, x))
                if nxt is None:
                    break
                st, bb = nxt
        return out

    def exec_block(self, frame, st, bb):
        blk = frame.body["blocks"][bb]
        ri = self.fn_rot.get(id(frame.body))
        if ri:
            if bb in ri["sites"]:
                # the state in front of a call whose result a rotated loop carries to its head (see analyse_rotated)
                pre = st.fork()
                pre.ghost.pop("rot", None)
                out = self._exec_block(frame, st, bb, blk)
                for k_, s_, _x in out:
                    if k_ == "goto":
                        s_.ghost["rot"] = (frame.fid, bb, pre)
                return out
            if bb not in ri["chain"] and "rot" in st.ghost and st.ghost["rot"][0] == frame.fid:
                del st.ghost["rot"]
        return self._exec_block(frame, st, bb, blk)

    def _exec_block(self, frame, st, bb, blk):
        states = [st]
        for stmt in blk["stmts"]:
            nstates = []
            for s in states:
                r = self.exec_stmt(frame, s, bb, stmt)
                nstates.extend(r)
            states = nstates
            if not states:
                return []
        out = []
        for s in states:
            out.extend(self.exec_term(frame, s, bb, blk["term"]))
        return out

    def exec_stmt(self, frame, st, bb, stmt):
        k = stmt["s"]
        if k == "assign":
            dty = self.place_ty(frame, stmt["place"])
            v = self.eval_rvalue(st, frame, bb, stmt["rv"], dty, stmt.get("ln"))
            rv = stmt["rv"]
            if rv["k"] == "bin" and rv["op"] == "BitXor" and not self.mute:
                # in-place XOR of a buffer element with another buffer's element (hide/reveal chains)
                try:
                    dloc = self.resolve_place(st, frame, stmt["place"])
                    if dloc[0] != "slice" and dloc[1] and dloc[1][-1][0] in ("e", "ei"):
                        di = dloc[1][-1][1] if dloc[1][-1][0] == "ei" else Lin.const(dloc[1][-1][1])
                        for o in (rv["l"], rv["r"]):
                            ov = self.eval_operand(st, frame, o)
                            if isinstance(ov, VInt) and len(ov.lin.t) == 1 and ov.lin.c == 0:
                                info = getattr(self, "elem_syms", {}).get(next(iter(ov.lin.t)))
                                if info is not None and not (isinstance(info[2], tuple) and info[2] and info[2][0] == "vec"):
                                    st.emit(("xor", dloc[0], di, info[0], info[1], {"fn": frame.fn["name"], "bb": bb, "ln": stmt.get("ln")}, info[2]))
                except Abort:
                    pass
            if isinstance(v, Alts):
                out = []
                for s2, v2 in v.items:
                    self.write_place(s2, frame, stmt["place"], v2)
                    out.append(s2)
                return out
            self.write_place(st, frame, stmt["place"], v)
            return [st]
        if k == "setdiscr":
            v = self.read_place(st, frame, stmt["place"])
            if isinstance(v, VAdt):
                self.write_place(st, frame, stmt["place"], VAdt(v.ty, Lin.const(stmt["variant"]), v.variants, v.base))
            return [st]
        if k == "assume":
            return [st]
        if k == "copy_nonoverlapping":
            self.unmodelled["stmt:copy_nonoverlapping"] += 1
            return [st]
        return [st]

    def term_ret(self, frame, st):
        return self.load(st, frame.cells[0], ())

    def exec_term(self, frame, st, bb, t):
        k = t["t"]
        if k == "goto":
            return [("goto", st, t["target"])]
        if k == "return":
            return [("ret", st, self.term_ret(frame, st))]
        if k == "drop":
            return [("goto", st, t["target"])]
        if k == "unreachable":
            return []
        if k == "switch":
            return self.exec_switch(frame, st, bb, t)
        if k == "assert":
            return self.exec_assert(frame, st, bb, t)
        if k == "call":
            return self.exec_call(frame, st, bb, t)
        if k in ("resume", "abort"):
            return []
        self.unmodelled["term:" + k] += 1
        return []

    def exec_switch(self, frame, st, bb, t):
        d = self.eval_operand(st, frame, t["discr"])
        targets = t["targets"]
        out = []
        hook = self.hooks.get("switch")
        if isinstance(d, VBool):
            if self.loop_stack:
                self.peel_probe(f=d.f)
            # targets usually [0 -> bbF], otherwise bbT
            fvals = [v for v, _ in targets]
            alts = []
            for v, tb in targets:
                alts.append((bool(v), tb))
            rest = [b for b in (False, True) if b not in [x[0] for x in alts]]
            for b in rest:
                alts.append((b, t["otherwise"]))
            for i, (val, tb) in enumerate(alts):
                s2 = st if i == len(alts) - 1 else st.fork()
                for s3 in self.assume(s2, d.f, val):
                    s3.note("%s:bb%d %s=%s" % (frame.fn["name"].split("::")[-1], bb, self.fmt_bool(d.f), val))
                    if hook:
                        hook(frame, s3, bb, d, val, tb)
                    out.append(("goto", s3, tb))
            return out
        if isinstance(d, VInt):
            if d.lin.is_const():
                c = d.lin.c
                if c < 0:
                    w, _ = self.int_info(t["ty"])
                    c += 1 << w
                for v, tb in targets:
                    if v == c:
                        if hook:
                            hook(frame, st, bb, d, v, tb)
                        return [("goto", st, tb)]
                if hook:
                    hook(frame, st, bb, d, None, t["otherwise"])
                return [("goto", st, t["otherwise"])]
            n = len(targets)
            if self.loop_stack:
                for v, _tb in targets:
                    self.peel_probe(lin=d.lin, val=v)
            for i, (v, tb) in enumerate(targets):
                s2 = st.fork()
                if self.add(s2, c_eq(d.lin, Lin.const(v))):
                    s2.note("%s:bb%d %r==%d" % (frame.fn["name"].split("::")[-1], bb, d.lin, v))
                    if hook:
                        hook(frame, s2, bb, d, v, tb)
                    out.append(("goto", s2, tb))
            ok = True
            for v, tb in targets:
                if not self.add(st, c_ne(d.lin, Lin.const(v))):
                    ok = False
                    break
            if ok:
                st.note("%s:bb%d %r not in %s" % (frame.fn["name"].split("::")[-1], bb, d.lin, [v for v, _ in targets][:6]))
                if hook:
                    hook(frame, st, bb, d, None, t["otherwise"])
                out.append(("goto", st, t["otherwise"]))
            return out
        # unknown discriminant: all targets possible
        self.stats["unknown_switch"] += 1
        seen = set()
        for v, tb in list(targets) + [(None, t["otherwise"])]:
            if tb in seen:
                continue
            seen.add(tb)
            # unreachable otherwise-blocks add nothing
            out.append(("goto", st.fork(), tb))
        return out

    def fmt_bool(self, f):
        k = f[0]
        if k == "atom":
            return cstr(f[1])
        if k == "bit":
            return "%s[%d]" % (f[1], f[2])
        if k == "not":
            return "!" + self.fmt_bool(f[1])
        if k in ("and", "or"):
            return "(%s %s %s)" % (self.fmt_bool(f[1]), k, self.fmt_bool(f[2]))
        return str(f[1:])

    def exec_assert(self, frame, st, bb, t):
        c = self.eval_operand(st, frame, t["cond"])
        m = t["msg"]
        if m["kind"] == "Other" and t.get("exp") and (m.get("s", "").startswith("MisalignedPointerDereference") or
                                                      m.get("s", "").startswith("NullPointerDereference")):
            # debug-assertion pointer checks the compiler inserts inside std macro expansions (vec![..] writes through
            # the freshly allocated Box): the allocator returns aligned, non-null memory (trusted base)
            self.assumed_total["debug pointer check in macro expansion (fresh Box allocation)"] += 1
            return [("goto", st, t["target"])]
        label = "assert:" + m["kind"] + (":" + m["op"] if "op" in m else "")
        kind = "bounds" if m["kind"] == "BoundsCheck" else "arith"
        if not isinstance(c, VBool):
            self.oblig(kind, frame, bb, label, False, st, "assert condition unknown", t.get("ln"))
            return [("goto", st, t["target"])]
        want = t["expected"]
        val = self.bool_value(st, c.f)
        proven = (val == want)
        detail = None
        if not proven:
            detail = "cannot prove %s == %s" % (self.fmt_bool(c.f), want)
            if m["kind"] == "Overflow":
                detail += " (%s overflow)" % m["op"]
        self.oblig(kind, frame, bb, label, proven, st, detail, t.get("ln"))
        out = []
        for s2 in self.assume(st, c.f, want):
            out.append(("goto", s2, t["target"]))
        return out

    # ------------------------------------------------------------ calls
    def exec_call(self, frame, st, bb, t):
        func = t["func"]
        args = [self.eval_operand(st, frame, a) for a in t["args"]]
        dty = self.place_ty(frame, t["dest"])
        site = (frame, bb, t)
        results = self.do_call(st, site, func, args, dty)
        out = []
        for s2, rv in results:
            if t["target"] is None:
                continue
            self.write_place(s2, frame, t["dest"], rv)
            out.append(("goto", s2, t["target"]))
        return out

    def do_call(self, st, site, func, args, dty):
        """returns list of (state, return value); diverging paths return nothing"""
        frame, bb, t = site
        if "key" not in func:
            # indirect call through a value
            fv = self.eval_operand(st, frame, func["indirect"])
            if isinstance(fv, VFn):
                return self.do_call(st, site, fv.func, args, dty)
            if isinstance(fv, VClosure):
                return self.call_closure(st, site, fv, args)
            if isinstance(fv, VRef):
                tv = self.load(st, fv.cell, fv.path)
                if isinstance(tv, (VClosure, VFn)):
                    return self.call_closure(st, site, fv, args)
            self.unmodelled["indirect call"] += 1
            return [(st, VUnknown(dty, self.fresh("ind")))]
        self.stats["calls"] += 1
        hook = self.hooks.get("call")
        if hook:
            hook(frame, st, bb, func, args)
        # 0. tuple-struct / tuple-variant constructor used as a function value
        if "ctor" in func:
            c = func["ctor"]
            cargs = list(args)
            return [(st, VAdt(c["ty"], Lin.const(c["variant"]), {c["variant"]: tuple(cargs)}))]
        # 1. trait contracts
        tr = func.get("trait")
        if tr in (READER_TRAIT, WRITER_TRAIT) and not self.opts.get("inline_rw_impls"):
            r = self.stubs.contract_call(self, st, site, func, args, dty)
            if r is not None:
                return r
        # 2. explicit stubs (may override local functions, e.g. TryInto dispatch)
        target = func.get("resolved") or func
        r = self.stubs.stub_call(self, st, site, func, target, args, dty)
        if r is not None:
            return r
        # 3. crate-local with MIR: analyse in context
        if target.get("local") and target["key"] in self.fx.fns and self.fx.fns[target["key"]]["kind"] == "Closure" \
                and func["name"].startswith("std::ops::Fn"):
            tup = args[1] if len(args) > 1 else UNIT
            if isinstance(tup, VAdt):
                cargs = list(tup.variants.get(0, ()))
            else:
                cargs = []
            return self.call_closure(st, site, args[0], cargs)
        if func["name"].startswith("std::ops::Fn") and args:
            # call through a generic F: Fn*(..) parameter: dispatch on the abstract callee value
            cv = args[0]
            tv = self.load(st, cv.cell, cv.path) if isinstance(cv, VRef) else cv
            if isinstance(tv, (VClosure, VFn)):
                tup = args[1] if len(args) > 1 else UNIT
                cargs = list(tup.variants.get(0, ())) if isinstance(tup, VAdt) else []
                return self.call_closure(st, site, cv if isinstance(cv, VRef) else tv, cargs)
        if target.get("local") and target["key"] in self.fx.fns:
            return self.call_local(st, site, target["key"], args, gargs=target.get("args"))
        if func.get("local") and func["key"] in self.fx.fns and "trait" not in func:
            return self.call_local(st, site, func["key"], args)
        # trait method on a concrete crate type that did not resolve statically (generic caller):
        # dispatch on the abstract receiver
        if tr is not None and func.get("local"):
            r = self.dynamic_dispatch(st, site, func, args, dty)
            if r is not None:
                return r
        # 4. unknown
        return self.unknown_call(st, site, func, args, dty)

    def unknown_call(self, st, site, func, args, dty):
        frame, bb, t = site
        name = (func.get("resolved") or func)["name"]
        self.unmodelled[name] += 1
        st.ghost["unmod"] = name       # what this path computes from here on rests on an unknown result
        if self.stubs.may_panic_name(name):
            self.oblig("panic-reach", frame, bb, self.callee_label(func), False, st,
                       "unmodelled callee of a panicking class: " + name, t.get("ln"))
        else:
            self.assumed_total[name] += 1
        # closures handed to a callee without a model: the callee may call them (any number of times), so what their bodies
        # require has to hold - from the state as it is now and from one in which whatever they can modify has changed
        for a in args:
            cv = self.load(st, a.cell, a.path) if isinstance(a, VRef) else a
            fnc = self.fx.fns.get(cv.key) if isinstance(cv, VClosure) else None
            if fnc is None or frame.depth > 40:
                continue
            for changed in (False, True):
                s2 = st.fork()
                if changed:
                    for up in cv.upvars:
                        if isinstance(up, VRef) and up.mut:
                            self.store(s2, up.cell, up.path, VUnknown(None, self.fresh("havoc")))
                try:
                    locs = fnc["body"]["locals"]
                    cargs = [self.symval(s2, locs[2 + i], self.fresh("cloarg")) for i in range(fnc["body"]["arg_count"] - 1)]
                    self.call_closure(s2, site, cv if not isinstance(a, VRef) else a, cargs)
                except Abort as e:
                    self.aborted[str(e)[:160]] += 1
        # havoc everything reachable through &mut arguments
        for a in args:
            if isinstance(a, VRef) and a.mut:
                self.store(st, a.cell, a.path, VUnknown(None, self.fresh("havoc")))
        if dty is not None:
            return [(st, self.symval(st, dty, self.fresh("ret")))]
        return [(st, VUnknown(None, self.fresh("ret")))]

    def call_local(self, st, site, key, args, tag=None, gargs=None):
        frame = site[0] if site else None
        fn = self.fx.fns[key]
        body = fn["body"]
        nf = self.new_frame(fn, body, frame, tag=tag)
        nf.gargs = gargs
        # recursion guard
        p = 0
        if frame is not None and frame.depth > 40:
            raise Abort("recursion?")
        if len(args) != body["arg_count"]:
            # closures called through Fn* traits get (env, (args,)) - handled by call_closure
            raise Abort("arg count mismatch calling %s" % key)
        for i, a in enumerate(args):
            st.cells[nf.cells[i + 1]] = a
        res = self.explore(nf, [(st, 0)])
        out = []
        hook = self.hooks.get("return")
        for s2, rv in res["ret"]:
            for c in nf.cells:
                s2.cells.pop(c, None)
            if hook:
                hook(nf, s2, rv)
            out.append((s2, rv))
        return out

    def call_closure(self, st, site, clo, cargs, by_ref=True):
        """call closure value with argument list cargs (already untupled)"""
        if isinstance(clo, VRef):
            clo_v = self.load(st, clo.cell, clo.path)
            envref = clo
        else:
            clo_v = clo
            envref = None
        if isinstance(clo_v, VFn):
            return self.do_call(st, site, clo_v.func, list(cargs), None)
        if not isinstance(clo_v, VClosure):
            self.unmodelled["call of non-closure"] += 1
            return [(st, VUnknown(None, self.fresh("clo")))]
        fn = self.fx.fns.get(clo_v.key)
        if fn is None:
            return [(st, VUnknown(None, self.fresh("clo")))]
        body = fn["body"]
        # closure body: _1 is the environment (by ref or by value depending on kind), then the args
        env_ty = self.T(body["locals"][1])
        if env_ty["k"] == "ref":
            if envref is None:
                cell = ("env", self.fresh("e"))
                st.cells[cell] = clo_v
                envref = VRef(cell, (), True)
            env = envref
        else:
            env = clo_v
        return self.call_local(st, site, clo_v.key, [env] + list(cargs), tag="{closure}")

    def dynamic_dispatch(self, st, site, func, args, dty):
        """trait method call whose impl was not resolved statically: choose the impl from
        the abstract receiver's ADT type"""
        if not args:
            return None
        recv = args[0]
        v = recv
        if isinstance(v, VRef):
            v = self.load(st, v.cell, v.path)
        if isinstance(v, VAdt):
            name = self.adt_name(v)
            for f in self.fx.raw["fns"]:
                if f.get("trait") == func["trait"] and f.get("item") == func["item"] and "self_ty" in f:
                    t = self.T(f["self_ty"])
                    if t["k"] == "adt" and t["name"] == name:
                        return self.call_local(st, site, f["key"], args)
        return None

    # ------------------------------------------------------------ loops
    def peel_probe(self, f=None, lin=None, val=None):
        """a branch inside a loop under inference that tests a loop-carried integer for equality with the constant it
        has on entry singles out the first iteration: that loop is analysed with its first iteration peeled off"""
        if not self.loop_stack:
            return
        top = self.loop_stack[-1]
        if f is not None:
            k = f[0]
            if k in ("and", "or"):
                self.peel_probe(f[1])
                self.peel_probe(f[2])
            elif k == "not":
                self.peel_probe(f[1])
            elif k == "atom" and f[1][1] in ("eq", "ne"):
                e = f[1][0]
                if len(e.t) == 1:
                    (sym, co), = e.t.items()
                    if co in (1, -1):
                        self.peel_probe(lin=Lin.sym(sym), val=-e.c * co)
            return
        if lin is not None and len(lin.t) == 1 and lin.c == 0:
            (sym, co), = lin.t.items()
            e0 = top["hsyms"].get(sym)
            if co == 1 and e0 is not None and e0.is_const() and e0.c == val:
                self.peel_wanted.add(top["lid"])

    def peel(self, frame, st0, head, loopset):
        """first iteration from the entry state itself, then the loop from every state that comes back to the head"""
        self.stats["loops_peeled"] = self.stats.get("loops_peeled", 0) + 1
        succs = self.exec_block(frame, st0.fork(), head)
        items = [(s, x) for k, s, x in succs if k == "goto"]
        rets = [(s, x) for k, s, x in succs if k == "ret"]
        res = self.explore(frame, items, head, loopset)
        out = {"ret": rets + res["ret"], "exit": list(res["exit"])}
        lid = (frame.key, head)
        for s_, _ in res["exit"]:
            s_.ghost["loops_done"] = s_.ghost.get("loops_done", ()) + (lid,)
        for b in res["back"]:
            r = self.analyse_loop(frame, b, head, loopset, peeled=True)
            out["ret"].extend(r["ret"])
            out["exit"].extend(r["exit"])
        return out

    def live_at(self, body, bb):
        """locals that may be read after entering block bb before being assigned (whole-local backward liveness; a
        write through a projection counts as a read of the base)"""
        key = id(body)
        lv = self.fn_live.get(key)
        if lv is None:
            blocks = body["blocks"]

            def places(x, out):
                if isinstance(x, dict):
                    if "l" in x and "p" in x and isinstance(x["p"], list):
                        out.add(x["l"])
                        for e in x["p"]:
                            if isinstance(e, dict) and "idx" in e:
                                out.add(e["idx"])
                        return
                    for v in x.values():
                        places(v, out)
                elif isinstance(x, list):
                    for v in x:
                        places(v, out)
            use, dfn, succ = [], [], []
            for b in blocks:
                u, d = set(), set()
                for st_ in b["stmts"]:
                    r = set()
                    if st_.get("s") == "assign":
                        places(st_.get("rv"), r)
                        pl = st_["place"]
                        if pl["p"]:
                            places(pl, r)
                        u |= (r - d)
                        if not pl["p"]:
                            d.add(pl["l"])
                    else:
                        places(st_, r)
                        u |= (r - d)
                t = b["term"]
                r = set()
                dest = t.get("dest") if t.get("t") == "call" else None
                places({k: v for k, v in t.items() if k != "dest"}, r)
                if dest is not None and dest["p"]:
                    places(dest, r)
                u |= (r - d)
                if dest is not None and not dest["p"]:
                    d.add(dest["l"])
                use.append(u)
                dfn.append(d)
                k = t.get("t")
                if k == "goto":
                    sc = [t["target"]]
                elif k == "switch":
                    sc = [x[1] for x in t["targets"]] + [t["otherwise"]]
                elif k in ("call", "assert", "drop"):
                    sc = [t["target"]] if t.get("target") is not None else []
                else:
                    sc = []
                if k == "return":
                    u.add(0) if 0 not in d else None
                succ.append(sc)
            live_in = [set() for _ in blocks]
            changed = True
            while changed:
                changed = False
                for i in range(len(blocks) - 1, -1, -1):
                    out = set()
                    for s_ in succ[i]:
                        out |= live_in[s_]
                    ni = use[i] | (out - dfn[i])
                    if ni != live_in[i]:
                        live_in[i] = ni
                        changed = True
            lv = live_in
            self.fn_live[key] = lv
        return lv[bb]

    def has_flip(self, st0, H, b, frame=None, head=None):
        live = self.live_at(frame.body, head) if frame is not None else None
        mine = {c: i for i, c in enumerate(frame.cells)} if frame is not None else {}
        for cell, v0 in H.cells.items():
            if cell not in st0.cells:
                continue
            if live is not None and cell in mine and mine[cell] not in live:
                continue            # a temporary that is dead at the loop head
            vb = b.cells.get(cell)
            if vb is None or vb is v0:
                continue
            for _kp, kind in self.diff(b, v0, vb, ()):
                if kind == "flip":
                    return True
        return False

    def phase_change(self, frame, st0, b, head=None):
        """a local of enum type that holds one variant on loop entry and another one on this back edge (an accumulator
        turning from Ok(..) into Err(..), a `first_error` going from None to Some): the state starts a new phase of
        the loop"""
        live = self.live_at(frame.body, head) if head is not None else None
        for i, cell in enumerate(frame.cells):
            if live is not None and i not in live:
                continue                # a temporary that is dead at the loop head (the last `next()` result, ...)
            v0 = st0.cells.get(cell)
            vb = b.cells.get(cell)
            if isinstance(v0, VAdt) and isinstance(vb, VAdt) and v0.vidx.is_const() and vb.vidx.is_const() and v0.vidx.c != vb.vidx.c:
                return True
        return False

    def analyse_loop(self, frame, st0, head, loopset, peeled=False, no_unroll=False, phase=0):
        """Houdini-style inductive invariant inference over loop-carried leaves, then a
        final recorded pass.  Returns {'ret': [...], 'exit': [(st, bb)]}"""
        self.stats["loops"] += 1
        lid = (frame.key, head)
        if lid in self.peel_wanted and not peeled and not self.opts.get("no_peel"):
            return self.peel(frame, st0, head, loopset)
        self._loop_gen[lid] = st0.ghost.get("loops_done", ()).count(lid) + 50 * phase
        ri = self.rot_info(frame.fn, frame.body)
        rot = st0.ghost.get("rot")
        if ri and head in ri["heads"] and rot is not None and rot[0] == frame.fid and not peeled and not no_unroll \
                and (rot[1] in ri["heads"][head]["out"] or rot[1] in ri["heads"][head]["in"]) and not self.opts.get("no_rotate"):
            # every outcome of the call before the loop reaches the head with the same pre-call state: the first one to
            # arrive analyses the loop for all of them
            done_key = (lid, id(rot[2]), self.mute > 0)
            if done_key in self._rot_done:
                return {"ret": [], "exit": []}
            r = self.analyse_rotated(frame, st0, head, loopset, rot, ri["heads"][head], ri["chain"])
            if r is not None:
                self._rot_done[done_key] = rot[2]
                return r
        small = self.small_array_loop(frame, st0, head)
        if self.opts.get("unroll") or small:
            r = self.try_unroll(frame, st0, head, loopset, max_width=(64 if small else 3))
            if r is not None:
                return r
        for c_, v_ in st0.cells.items():
            if isinstance(v_, VVec):
                self._loop_entry_cells[(lid, c_)] = v_
        havoc = {}          # (cell, keypath) -> (sym or None, kind)
        prefixes = {}       # (cell, keypath of content) -> common prefix of the segment description
        cands = None
        entry_vals = {}
        want_unroll = False
        self.mute += 1
        try:
            for it in range(12):
                H, hv = self.make_head(st0, havoc, cands, lid, entry_vals, prefixes)
                if cands is None:
                    cands = []
                self.loop_stack.append({"lid": lid, "hsyms": {s_: entry_vals.get(leaf_) for leaf_, s_ in hv.items()
                                                              if entry_vals.get(leaf_) is not None}})
                try:
                    succs = self.exec_block(frame, H.fork(), head)
                    items = [(s, x) for k, s, x in succs if k == "goto"]
                    res = self.explore(frame, items, head, loopset)
                finally:
                    self.loop_stack.pop()
                # back edges on which an enum-typed local has changed its variant are not merged into this phase's
                # invariant: the loop is analysed again from each of them (below), at most two phases deep
                backs = [b for b in res["back"] if phase >= 2 or not self.phase_change(frame, st0, b, head)]
                # ... and a back edge on which some enum value has changed its variant (an iterator's pending item gone
                # to None, a parked error) may be the last one: if one more evaluation of the head certainly leaves the
                # loop from it, it is an exit
                backs = [b for b in backs if not (self.has_flip(st0, H, b, frame, head) and self.terminal_exit(frame, b, head, loopset) is not None)]
                changed = False
                for b in backs:
                    for cell, v0 in H.cells.items():
                        if cell not in st0.cells:
                            continue
                        vb = b.cells.get(cell)
                        if vb is None or vb is v0:
                            continue
                        for kp, kind in self.diff(b, v0, vb, ()):
                            if kind == "content":
                                # keep the longest common prefix of the buffer's segment description
                                a0 = self.vget(st0.cells[cell], kp[:-1]) if kp[:-1] else st0.cells[cell]
                                b0 = self.vget(vb, kp[:-1]) if kp[:-1] else vb
                                cur = prefixes.get((cell, kp))
                                base = cur if cur is not None else (a0.segs if isinstance(a0, VVec) and a0.segs is not None else ())
                                other = b0.segs if isinstance(b0, VVec) and b0.segs is not None else ()
                                pre = []
                                for x, y in zip(base, other):
                                    if x[0] == y[0] and x[1] == y[1]:
                                        pre.append(x)
                                    else:
                                        break
                                pre = tuple(pre)
                                if cur is None or len(pre) < len(cur):
                                    prefixes[(cell, kp)] = pre
                                    changed = True
                            if kind == "flip":
                                kind = "any"
                            if (cell, kp) not in havoc:
                                # subsumed by an already havoced prefix?
                                if any((cell, kp[:i]) in havoc for i in range(len(kp))):
                                    continue
                                havoc[(cell, kp)] = kind
                                changed = True
                                if kind == "any" and not no_unroll and not self.opts.get("no_auto_unroll"):
                                    old_ = self.vget(st0.cells[cell], kp) if kp else st0.cells[cell]
                                    if isinstance(old_, VBool):
                                        want_unroll = True      # a loop-carried flag: no relational invariant over it
                if want_unroll:
                    break
                if changed:
                    # regenerate candidates for the enlarged havoc set
                    cands = self.gen_candidates(st0, havoc, lid, frame, H, backs)
                    continue
                # check candidates on all back edges
                bad = []
                for c in cands:
                    for b in backs:
                        if c[0] == "stride":
                            if not self.stride_holds(b, c, lid):
                                bad.append(c)
                                break
                            continue
                        inst = self.inst_cand(b, c, havoc, lid)
                        if inst is None or not entails(b.cons, inst, self.ranges):
                            bad.append(c)
                            break
                if bad:
                    cands = [c for c in cands if c not in bad]
                    continue
                break
            else:
                raise Abort("loop invariant inference did not converge at %s bb%d" % lid)
        finally:
            self.mute -= 1
        if want_unroll:
            # a loop driven by a flag and counters that start from constants: walk it iteration by iteration when that
            # ends within the bounds (few states per round, at most 24 rounds); otherwise summarise it as usual
            r = self.try_unroll(frame, st0, head, loopset, max_iter=24, max_width=3)
            if r is not None:
                return r
            return self.analyse_loop(frame, st0, head, loopset, peeled, no_unroll=True, phase=phase)
        if lid in self.peel_wanted and not peeled and not self.opts.get("no_peel"):
            return self.peel(frame, st0, head, loopset)
        # final pass (obligations recorded)
        H, hv = self.make_head(st0, havoc, cands, lid, entry_vals, prefixes)
        if any(b.ghost.get("unmod") for b in backs):
            H.ghost["unmod"] = next(b.ghost["unmod"] for b in backs if b.ghost.get("unmod"))
        succs = self.exec_block(frame, H.fork(), head)
        items = [(s, x) for k, s, x in succs if k == "goto"]
        rets = [(s, x) for k, s, x in succs if k == "ret"]
        res = self.explore(frame, items, head, loopset)
        later = [b for b in res["back"] if phase < 2 and self.phase_change(frame, st0, b, head)]
        if later:
            res = dict(res, back=[b for b in res["back"] if not any(b is x for x in later)])
        term_rets, term_exits, keep = [], [], []
        for b in res["back"]:
            te = self.terminal_exit(frame, b, head, loopset) if self.has_flip(st0, H, b, frame, head) else None
            if te is None:
                keep.append(b)
            else:
                term_rets += te["ret"]
                term_exits += te["exit"]
        if len(keep) != len(res["back"]):
            res = dict(res, back=keep, exit=list(res["exit"]) + term_exits, ret=list(res["ret"]) + term_rets)
        # ranking obligation
        self.rank_check(frame, head, H, res["back"], havoc, lid, cands)
        if not self.mute:
            self.loops_report.append({
                "fn": frame.fn["name"], "head": head, "context": frame.ctxname,
                "havoc": [self.leaf_name(c, kp) for (c, kp) in havoc],
                "invariants": [self.cand_str(c) for c in cands],
                "back_edges": len(res["back"]), "exits": len(res["exit"]),
            })
        for s_, _ in res["exit"]:
            s_.ghost["loops_done"] = s_.ghost.get("loops_done", ()) + (lid,)
        if not rets and not res["ret"]:
            self.memcpy_summary(frame, head, H, res, havoc, lid)
        hook = self.hooks.get("loop")
        if hook:
            hook(frame, head, H, res, havoc, lid)
        out = {"ret": rets + res["ret"], "exit": list(res["exit"])}
        for b in later:
            self.stats["loop_phases"] = self.stats.get("loop_phases", 0) + 1
            r = self.analyse_loop(frame, b, head, loopset, peeled=peeled, no_unroll=no_unroll, phase=phase + 1)
            out["ret"].extend(r["ret"])
            out["exit"].extend(r["exit"])
        return out

    def terminal_exit(self, frame, b, head, loopset):
        """a state that has come back to the head and, evaluated there once more, certainly leaves the loop (the flag it
        set, the fault it parked in the loop variable) is an exit, not a back edge.  Returns {"ret", "exit"} or None."""
        def run(st):
            succs = self.exec_block(frame, st, head)
            items = [(s, x) for k, s, x in succs if k == "goto"]
            rets = [(s, x) for k, s, x in succs if k == "ret"]
            res = self.explore(frame, items, head, loopset)
            return rets, res
        self.mute += 1
        self._trial, saved = 60, self._trial
        try:
            rets, res = run(b.fork())
        except TrialOver:
            return None
        finally:
            self._trial = saved
            self.mute -= 1
        if res["back"]:
            return None
        if self.mute:
            return {"ret": rets + res["ret"], "exit": res["exit"]}
        rets, res = run(b.fork())
        return {"ret": rets + res["ret"], "exit": res["exit"]}

    def analyse_rotated(self, frame, st0, head, loopset, rot, hinfo, chain):
        """the loop cut in front of the call that feeds its condition instead of at its head: the invariant is inferred
        over the states in front of that call (the one before the loop on entry, the one at the end of the body on
        every back edge), so the call's result is computed from the generalised state in each iteration, the way it is
        in the unrotated form of the loop.  Returns None when the shape does not hold up (normal analysis follows)."""
        lid = (frame.key, head)
        P0 = rot[2]
        site0 = rot[1]
        region = set(loopset) | set(chain) | set(hinfo["in"]) | set(hinfo["out"])

        def iteration(Hv, site):
            """from the virtual head: the call, the moves up to the real head, one pass through the loop"""
            s0 = Hv.fork()
            s0.ghost.pop("rot", None)
            succs = self.exec_block(frame, s0, site)
            rets = [(s, x) for k, s, x in succs if k == "ret"]
            arr = self.explore(frame, [(s, x) for k, s, x in succs if k == "goto"], head, region)
            rets += arr["ret"]
            exits = list(arr["exit"])
            backs = []
            for a_ in arr["back"]:
                succs = self.exec_block(frame, a_, head)
                rets += [(s, x) for k, s, x in succs if k == "ret"]
                res = self.explore(frame, [(s, x) for k, s, x in succs if k == "goto"], head, loopset)
                rets += res["ret"]
                exits += res["exit"]
                backs += res["back"]
            return rets, exits, backs

        def pre_states(backs):
            """(pre-call states of the continuing back edges, exits and returns of the terminal ones, in-loop site) or None"""
            pres, exits, rets, site = [], [], [], None
            for b in backs:
                t = b.ghost.get("rot")
                if t is not None and t[0] == frame.fid and t[1] in hinfo["in"]:
                    # came round through the call: whatever the call returned this time is the next iteration's business
                    if site is not None and t[1] != site:
                        return None
                    site = t[1]
                    pres.append(t[2])
                    continue
                te = self.terminal_exit(frame, b, head, loopset)
                if te is None:
                    return None
                exits += te["exit"]
                rets += te["ret"]
            return pres, exits, rets, site

        havoc, prefixes, entry_vals = {}, {}, {}
        cands = None
        site = site0
        self.mute += 1
        try:
            # the call before the loop and the call in the loop must be interchangeable on the entry state
            for it in range(14):
                H, hv = self.make_head(P0, havoc, cands, lid, entry_vals, prefixes)
                if cands is None:
                    cands = []
                self.loop_stack.append({"lid": lid, "hsyms": {s_: entry_vals.get(leaf_) for leaf_, s_ in hv.items()
                                                              if entry_vals.get(leaf_) is not None}})
                try:
                    _r, _e, backs = iteration(H, site)
                finally:
                    self.loop_stack.pop()
                ps = pre_states(backs)
                if ps is None:
                    return None
                pres, _te, _tr, insite = ps
                if site == site0 and insite is not None and insite != site0:
                    # from now on the in-loop call stands at the virtual head; it must do on the entry state what the
                    # call before the loop did
                    if not self.same_call_effect(frame, P0, site0, insite, head, region):
                        return None
                    site = insite
                    continue
                changed = self.houdini_update(P0, H, pres, havoc, prefixes)
                if changed:
                    cands = self.gen_candidates(P0, havoc, lid, frame, H, pres)
                    continue
                bad = []
                for c in cands:
                    for b in pres:
                        if c[0] == "stride":
                            if not self.stride_holds(b, c, lid):
                                bad.append(c)
                                break
                            continue
                        inst = self.inst_cand(b, c, havoc, lid)
                        if inst is None or not entails(b.cons, inst, self.ranges):
                            bad.append(c)
                            break
                if bad:
                    cands = [c for c in cands if c not in bad]
                    continue
                break
            else:
                return None
        finally:
            self.mute -= 1
        H, hv = self.make_head(P0, havoc, cands, lid, entry_vals, prefixes)
        if any(b.ghost.get("unmod") for b in pres):
            H.ghost["unmod"] = next(b.ghost["unmod"] for b in pres if b.ghost.get("unmod"))
        rets, exits, backs = iteration(H, site)
        ps = pre_states(backs)
        if ps is None:
            return None
        pres, texits, trets, _site = ps
        exits += texits
        rets += trets
        res = {"ret": rets, "exit": exits, "back": pres}
        self.rank_check(frame, head, H, pres, havoc, lid, cands)
        self.stats["loops_rotated"] = self.stats.get("loops_rotated", 0) + 1
        if not self.mute:
            self.loops_report.append({
                "fn": frame.fn["name"], "head": head, "context": frame.ctxname, "rotated": True,
                "havoc": [self.leaf_name(c, kp) for (c, kp) in havoc],
                "invariants": [self.cand_str(c) for c in cands],
                "back_edges": len(pres), "exits": len(exits),
            })
        for s_, _ in exits:
            s_.ghost["loops_done"] = s_.ghost.get("loops_done", ()) + (lid,)
        hook = self.hooks.get("loop")
        if hook:
            hook(frame, head, H, res, havoc, lid)
        return {"ret": rets, "exit": exits}

    def same_call_effect(self, frame, P0, site_a, site_b, head, region):
        """both call blocks, run from the same state up to the loop head, leave the same values in every local except
        their own temporaries (the locals the two blocks and the move chains assign and then move out of)"""
        def run(site):
            s0 = P0.fork()
            succs = self.exec_block(frame, s0, site)
            arr = self.explore(frame, [(s, x) for k, s, x in succs if k == "goto"], head, region)
            return arr["back"], len(arr["exit"]) + len(arr["ret"]) + len([1 for k, s, x in succs if k == "ret"])
        a, na = run(site_a)
        b, nb = run(site_b)
        if len(a) != len(b) or na != nb:
            return False
        blocks = frame.body["blocks"]
        temps = set()
        for site in (site_a, site_b):
            bb = site
            seen = set()
            while bb is not None and bb != head and bb not in seen:
                seen.add(bb)
                blk = blocks[bb]
                for st_ in blk["stmts"]:
                    if st_["s"] == "assign":
                        if bb == site and not st_["place"]["p"]:
                            temps.add(st_["place"]["l"])
                        op = st_["rv"].get("op") if st_["rv"]["k"] == "use" else None
                        if isinstance(op, dict) and "move" in op and not op["move"]["p"]:
                            temps.add(op["move"]["l"])
                t = blk["term"]
                if bb == site and t["t"] == "call":
                    if not t["dest"]["p"]:
                        temps.add(t["dest"]["l"])
                    for ag in t["args"]:
                        if isinstance(ag, dict) and "move" in ag and not ag["move"]["p"]:
                            temps.add(ag["move"]["l"])
                bb = t.get("target") if t["t"] in ("call", "goto", "drop") else None
        skip = set(frame.cells[l_] for l_ in temps if l_ < len(frame.cells))
        import re as _re

        def norm(v):
            return _re.sub(r"\$\d+", "$", repr(v))
        for x, y in zip(a, b):
            for cell in set(x.cells) | set(y.cells):
                if cell in skip:
                    continue
                if x.cells.get(cell) is None or y.cells.get(cell) is None:
                    continue        # not initialised on one of the ways in: dead at the head (definite initialisation)
                if norm(x.cells.get(cell)) != norm(y.cells.get(cell)):
                    if self.opts.get("debug_rot"):
                        print("same_call_effect: cell", cell, norm(x.cells.get(cell))[:200], "|", norm(y.cells.get(cell))[:200], "skip", skip)
                    return False
        return True

    def houdini_update(self, st0, H, backs, havoc, prefixes):
        """enlarge the havoc set by the leaves in which a back-edge state differs from the head state"""
        changed = False
        for b in backs:
            for cell, v0 in H.cells.items():
                if cell not in st0.cells:
                    continue
                vb = b.cells.get(cell)
                if vb is None or vb is v0:
                    continue
                for kp, kind in self.diff(b, v0, vb, ()):
                    if kind == "content":
                        a0 = self.vget(st0.cells[cell], kp[:-1]) if kp[:-1] else st0.cells[cell]
                        b0 = self.vget(vb, kp[:-1]) if kp[:-1] else vb
                        cur = prefixes.get((cell, kp))
                        base = cur if cur is not None else (a0.segs if isinstance(a0, VVec) and a0.segs is not None else ())
                        other = b0.segs if isinstance(b0, VVec) and b0.segs is not None else ()
                        pre = []
                        for x, y in zip(base, other):
                            if x[0] == y[0] and x[1] == y[1]:
                                pre.append(x)
                            else:
                                break
                        pre = tuple(pre)
                        if cur is None or len(pre) < len(cur):
                            prefixes[(cell, kp)] = pre
                            changed = True
                    if kind == "flip":
                        kind = "any"
                    if (cell, kp) not in havoc:
                        if any((cell, kp[:i]) in havoc for i in range(len(kp))):
                            continue
                        havoc[(cell, kp)] = kind
                        changed = True
        return changed

    def memcpy_summary(self, frame, head, H, res, havoc, lid):
        """an element-wise copy loop  `dst[a + p] = src[b + p]; p += 1`  (nothing else happens in an iteration) leaves
        dst[a + p0 .. a + p_exit) = src[b + p0 .. b + p_exit): recorded on the exit states as one copy, like
        copy_from_slice / ptr::copy_nonoverlapping would be"""
        backs = res["back"]
        if not backs or not res["exit"]:
            return
        leaves = {self.hsym(lid, c_, kp_): (c_, kp_) for (c_, kp_), k_ in havoc.items() if k_ == "int"}

        def at_entry(lin):
            out = Lin.const(lin.c)
            for sym, k in lin.t.items():
                if sym in leaves:
                    e0 = self._entry.get((lid, leaves[sym]))
                    if e0 is None:
                        return None
                    out = out + e0.scale(k)
                else:
                    out = out + Lin.sym(sym).scale(k)
            return out
        info = None
        for b in backs:
            evs = b.events()[H.ntrace:]
            stores = [e for e in evs if e[0] == "elemstore"]
            other = [e for e in evs if e[0] not in ("elemstore", "range_next", "iter_next")]
            if len(stores) != 1 or other:
                return
            _, D, I, val = stores[0]
            if not (len(val.lin.t) == 1 and val.lin.c == 0 and next(iter(val.lin.t.values())) == 1):
                return
            src = getattr(self, "byte_syms", {}).get(next(iter(val.lin.t)))
            if src is None or src[0] == D:
                return
            sbase, J = src
            hs = [s_ for s_ in I.t if s_ in leaves]
            if len(hs) != 1 or I.t[hs[0]] != 1:
                return
            pl = leaves[hs[0]]
            nb = self.leaf_lin(b, *pl)
            I0, J0 = at_entry(I), at_entry(J)
            if nb is None or I0 is None or J0 is None or not entails(b.cons, c_eq(nb, Lin.sym(hs[0]) + 1), self.ranges):
                return
            if not entails(b.cons, c_eq(J - I, J0 - I0), self.ranges):
                return
            cur = (D, sbase, hs[0], I, I0, J0)
            if info is None:
                info = cur
            elif info != cur:
                return
        D, sbase, hsym_p, I, I0, J0 = info
        pl = leaves[hsym_p]
        e0 = self._entry.get((lid, pl))
        from stubs import slice_desc, patch_segs
        for s_, _bb in res["exit"]:
            pe = self.leaf_lin(s_, *pl)
            tgt = s_.cells.get(D)
            if pe is None or not isinstance(tgt, VVec):
                continue
            n = pe - e0
            # the same count, written the way the program's own lengths are written (when that is provable)
            for (c_, kp_, v_) in self._len_leaves(s_, havoc, frame):
                if entails(s_.cons, c_eq(n, v_), self.ranges):
                    n = v_
                    break
            d = slice_desc(self, s_, VSlice(sbase, J0, n, self.u8_ty()))
            s_.emit(("copy", D, I0, VInt(self.usize_ty(), n), d, {"fn": frame.fn["name"], "bb": head, "ln": frame.body["blocks"][head]["term"].get("ln"), "ctx": frame.ctxname}))
            st0v = H.cells.get(D)
            segs0 = None
            # content before the loop (the head state's prefix description) with the copied range replaced
            ent_v = self._loop_entry_cells.get((lid, D))
            if isinstance(ent_v, VVec) and ent_v.segs is not None:
                segs0 = patch_segs(self, s_, ent_v.segs, I0, n, d)
            s_.cells[D] = VVec(tgt.len, segs0, None, tgt.name, tgt.elem_ty, tgt.marks)
        self.stats["loops_memcpy"] = self.stats.get("loops_memcpy", 0) + 1

    def _len_leaves(self, st, havoc, frame):
        out = []
        for cell in set(c_ for (c_, _kp) in havoc):
            v = st.cells.get(cell)
            if v is None:
                continue
            tmp = []
            self.int_leaves(st, cell, v, (), tmp)
            for (c_, kp_, x) in tmp:
                if kp_ and kp_[-1][0] in ("slen", "len", "ilen") and isinstance(x, VInt):
                    out.append((c_, kp_, x.lin))
        return out

    def small_array_loop(self, frame, st0, head):
        """is this a `for x in <fixed-size array / few literal items>` loop?  Its head calls Iterator::next on an
        iterator over at most 8 statically known items; such loops are unrolled instead of summarised."""
        blk = frame.body["blocks"][head]
        t = blk["term"]
        if t["t"] != "call" or "key" not in t["func"] or not t["func"]["name"].endswith("::next") or not t["args"]:
            return False
        self.mute += 1
        try:
            s = st0.fork()
            for stmt in blk["stmts"]:
                r = self.exec_stmt(frame, s, head, stmt)
                if len(r) != 1:
                    return False
                s = r[0]
            v = self.eval_operand(s, frame, t["args"][0])
            for _ in range(2):
                if isinstance(v, VRef):
                    v = self.load(s, v.cell, v.path)
            # look through adaptors (filter, map, enumerate, ...) to the source
            for _ in range(6):
                if isinstance(v, VIter) and v.kind in ("filter", "map", "filter_map", "flatten", "copied", "enumerate", "take", "map_while") and isinstance(v.src, VIter):
                    v = v.src
                elif isinstance(v, VIter) and v.kind == "zip2":
                    a, b = v.src
                    v = a if (isinstance(a, VIter) and a.kind == "array") else b
                else:
                    break
            if isinstance(v, VIter) and v.kind == "slice" and isinstance(v.pos, Lin) and v.pos.is_const() \
                    and isinstance(v.src, VSlice) and v.src.len.is_const() and 0 <= v.src.len.c - v.pos.c <= 8:
                return True        # a slice iterator over a fixed-size array (`for x in arr.iter_mut()`)
            return isinstance(v, VIter) and v.kind == "array" and isinstance(v.pos, int) and v.items is not None \
                and len(v.items) - v.pos <= 8
        except Abort:
            return False
        finally:
            self.mute -= 1

    def try_unroll(self, frame, st0, head, loopset, max_iter=24, max_width=3):
        """bounded concrete unrolling for loops with a small, statically decided trip count (e.g. a loop over a
        fixed-size array); returns None when the loop does not unroll within the bounds (Houdini is used then)"""
        states = [st0]
        exits, rets = [], []
        self.mute += 1          # obligations of the attempt are recorded only if it succeeds (re-run below)
        try:
            for it in range(max_iter + 1):
                nxt = []
                for s in states:
                    succs = self.exec_block(frame, s.fork(), head)
                    items = [(x, y) for k, x, y in succs if k == "goto"]
                    res = self.explore(frame, items, head, loopset)
                    nxt.extend(res["back"])
                    if len(nxt) > max_width:
                        return None
                if not nxt:
                    break
                states = nxt
            else:
                return None
        finally:
            self.mute -= 1
        # it unrolls: run it again for real
        states = [st0]
        while states:
            nxt = []
            for s in states:
                succs = self.exec_block(frame, s, head)
                items = [(x, y) for k, x, y in succs if k == "goto"]
                rets.extend((x, y) for k, x, y in succs if k == "ret")
                res = self.explore(frame, items, head, loopset)
                nxt.extend(res["back"])
                exits.extend(res["exit"])
                rets.extend(res["ret"])
            states = nxt
        self.stats["loops_unrolled"] += 1
        return {"ret": rets, "exit": exits}

    def leaf_name(self, cell, kp):
        return "%s%s" % (cell, "".join("." + "/".join(str(x) for x in k) for k in kp))

    def hsym(self, lid, cell, kp):
        # a path that goes through the same loop again (after an unrolled or peeled outer iteration) gets fresh
        # head symbols: the constraints its first passage left on the old ones do not apply to the new passage
        g = self._loop_gen.get(lid, 0)
        return "h[%s.bb%d%s|%s]" % (lid[0].split("::", 1)[-1], lid[1], "#%d" % g if g else "", self.leaf_name(cell, kp))

    def vget(self, v, kp):
        for key in kp:
            found = None
            for k2, c in children(v):
                if k2 == key:
                    found = c
                    break
            if found is None:
                return None
            v = found
        return v

    def vset(self, v, kp, nv):
        if not kp:
            return nv
        key = kp[0]
        for k2, c in children(v):
            if k2 == key:
                return with_child(v, key, self.vset(c, kp[1:], nv))
        raise Abort("vset: no child %r" % (key,))

    def make_head(self, st0, havoc, cands, lid, entry_vals, prefixes=None):
        H = st0.fork()
        hv = {}
        for (cell, kp), kind in havoc.items():
            root = H.cells[cell]
            if kind == "int":
                old = self.vget(st0.cells[cell], kp)
                s = self.hsym(lid, cell, kp)
                if s not in self.ranges:
                    ty = old.ty if isinstance(old, VInt) else None
                    if ty is not None:
                        self.ranges[s] = self.int_range(ty)
                    else:
                        self.ranges[s] = (0, (1 << 63) - 1)
                nv = VInt(old.ty if isinstance(old, VInt) else None, Lin.sym(s), None, None, getattr(old, "taint", None))
                if getattr(old, "taint", None):
                    if not hasattr(self, "tainted_syms"):
                        self.tainted_syms = set()
                    self.tainted_syms.add(s)      # a loop-carried value that started out position dependent
                entry_vals[(cell, kp)] = old.lin if isinstance(old, VInt) else None
                self._entry[(lid, (cell, kp))] = old.lin if isinstance(old, VInt) else None
                H.cells[cell] = self.vset(root, kp, nv)
                hv[(cell, kp)] = s
            elif kind == "content":
                pre = (prefixes or {}).get((cell, kp), ())
                root = H.cells[cell]
                vec = self.vget(root, kp[:-1]) if kp[:-1] else root
                if isinstance(vec, VVec):
                    if pre:
                        tot = Lin.const(0)
                        for sl, sd in pre:
                            tot = tot + sl
                        segs = tuple(pre) + ((vec.len - tot, ("unknown", self.hsym(lid, cell, kp))),)
                    else:
                        segs = None
                    nvec = VVec(vec.len, segs, None, (vec.name or "vec") + "~", vec.elem_ty, None)
                    H.cells[cell] = self.vset(root, kp[:-1], nvec) if kp[:-1] else nvec
            else:
                old = self.vget(st0.cells[cell], kp) if kp else st0.cells[cell]
                nv = self.havoc_value(H, old, self.hsym(lid, cell, kp))
                H.cells[cell] = self.vset(root, kp, nv) if kp else nv
        for c in cands or []:
            inst = self.inst_cand(H, c, havoc, lid)
            if inst is not None:
                H.cons.append(inst)
        return H, hv

    def havoc_value(self, st, old, name):
        if isinstance(old, VBool):
            return VBool(("sym", name))
        if isinstance(old, VVec):
            return VVec(self.len_sym("len(" + name + ")"), None, None, old.name, old.elem_ty, None)
        if isinstance(old, VArr):
            return VArr(old.n, None, name)
        if isinstance(old, VAdt) and isinstance(old.ty, int):
            return self.symval(st, old.ty, name)
        if isinstance(old, VInt):
            return self.named_int(old.ty, name) if old.ty is not None else VInt(None, self.len_sym(name))
        if isinstance(old, VIter):
            return VIter(old.kind, None, 0, old.src, old.extra)
        return VUnknown(getattr(old, "ty", None), name)

    def same_lin(self, st, a, b):
        if a == b:
            return True
        return entails(st.cons, c_eq(a, b), self.ranges)

    def diff(self, st, v0, vb, kp):
        """yield (keypath, kind) of leaves where vb differs from v0"""
        if v0 is vb:
            return
        if isinstance(v0, VInt) and isinstance(vb, VInt):
            if not self.same_lin(st, v0.lin, vb.lin):
                yield (kp, "int")
            return
        if type(v0) is not type(vb):
            yield (kp, "any")
            return
        if isinstance(v0, VBool):
            if v0.f != vb.f:
                yield (kp, "flip" if isinstance(vb, VBool) and v0.f[0] == "const" and vb.f[0] == "const" else "any")
            return
        if isinstance(v0, VAdt):
            if v0.vidx != vb.vidx and not self.same_lin(st, v0.vidx, vb.vidx):
                yield (kp, "flip" if isinstance(vb, VAdt) and v0.vidx.is_const() and vb.vidx.is_const() else "any")
                return
            if set(v0.variants) != set(vb.variants):
                # lazily materialised variants on one side only: compare the common ones
                pass
            for vi in v0.variants:
                if vi not in vb.variants:
                    continue
                a, b = v0.variants[vi], vb.variants[vi]
                if len(a) != len(b):
                    yield (kp, "any")
                    return
                for fi in range(len(a)):
                    yield from self.diff(st, a[fi], b[fi], kp + (("f", vi, fi),))
            return
        if isinstance(v0, VVec):
            if not self.same_lin(st, v0.len, vb.len):
                yield (kp + (("len",),), "int")
            if v0.segs != vb.segs or v0.elems != vb.elems or v0.marks != vb.marks:
                yield (kp + (("content",),), "content")
            return
        if isinstance(v0, VReader):
            if not self.same_lin(st, v0.L, vb.L):
                yield (kp + (("L",),), "int")
            if v0.pos is not None and vb.pos is not None and not self.same_lin(st, v0.pos, vb.pos):
                yield (kp + (("pos",),), "int")
            return
        if isinstance(v0, VWriter):
            if not self.same_lin(st, v0.W, vb.W):
                yield (kp + (("W",),), "int")
            return
        if isinstance(v0, VSlice):
            if v0.base != vb.base:
                yield (kp, "any")
                return
            if not self.same_lin(st, v0.start, vb.start):
                yield (kp + (("start",),), "int")
            if not self.same_lin(st, v0.len, vb.len):
                yield (kp + (("slen",),), "int")
            return
        if isinstance(v0, VRef):
            if v0.cell != vb.cell or v0.path != vb.path:
                yield (kp, "any")
            return
        if isinstance(v0, VArr):
            if v0.elems is None and vb.elems is None:
                if v0.name != vb.name:
                    yield (kp, "any")
                return
            if v0.elems is None or vb.elems is None or len(v0.elems) != len(vb.elems):
                yield (kp, "any")
                return
            for i in range(len(v0.elems)):
                yield from self.diff(st, v0.elems[i], vb.elems[i], kp + (("e", i),))
            return
        if isinstance(v0, VIter):
            if not isinstance(vb, VIter) or v0.kind != vb.kind:
                yield (kp, "any")
                return
            if isinstance(v0.pos, Lin) and isinstance(vb.pos, Lin):
                if not self.same_lin(st, v0.pos, vb.pos):
                    yield (kp + (("ipos",),), "int")
                if isinstance(v0.items, Lin) and isinstance(vb.items, Lin) and not self.same_lin(st, v0.items, vb.items):
                    yield (kp + (("ilen",),), "int")
            elif v0.kind != "successors" and (v0.items != vb.items or v0.pos != vb.pos):
                yield (kp, "any")
                return
            # nested iterators (adaptors) and the slice an iterator walks
            kids0 = dict(children(v0))
            kidsb = dict(children(vb))
            for key in kids0:
                if key[0] in ("isrc", "isl", "ist") and key in kidsb:
                    yield from self.diff(st, kids0[key], kidsb[key], kp + (key,))
            if not any(k[0] in ("isrc", "isl", "ist") for k in kids0) and not isinstance(v0.pos, Lin) and v0.src != vb.src:
                yield (kp, "any")
            return
        if isinstance(v0, (VUnknown,)):
            if v0.name != vb.name:
                yield (kp, "any")
            return
        if isinstance(v0, VClosure):
            if v0.key != vb.key:
                yield (kp, "any")
                return
            for i, (a, b) in enumerate(zip(v0.upvars, vb.upvars)):
                for kp2, kind in self.diff(st, a, b, ()):
                    yield (kp, "any")
                    return
            return
        if isinstance(v0, VDigest):
            if v0.did != vb.did:
                yield (kp, "any")
            return
        return

    # candidates: ('ge0', leaf) h >= entry ; ('le0', leaf) h <= entry ; ('le', leafA, refB) ; ('ge', leafA, refB)
    # where refB is ('leaf', cell, kp) (another int leaf, read from the state)
    def int_leaves(self, st, cell, v, kp, out, depth=0):
        if depth > 6:
            return
        for key, c in children(v):
            if isinstance(c, VInt):
                out.append((cell, kp + (key,), c))
            else:
                self.int_leaves(st, cell, c, kp + (key,), out, depth + 1)

    def stride_sym(self, lid, leaf, c):
        return "k[%s/%d]" % (self.hsym(lid, *leaf), c)

    def stride_holds(self, b, cand, lid):
        """leaf = entry + c*K for an integer K at the head  =>  the same at the back edge: (leaf' - entry) is a
        multiple of c once the head symbols with a stride are written as entry + c*K"""
        _k, leaf, c = cand
        xb = self.leaf_lin(b, *leaf)
        e0 = self._entry.get((lid, leaf))
        if xb is None or e0 is None:
            return False
        d = xb - e0
        hs = self.hsym(lid, *leaf)
        if hs in d.t:
            k = d.t[hs]
            d = d - Lin.sym(hs).scale(k) + (e0 + Lin.sym(self.stride_sym(lid, leaf, c)).scale(c)).scale(k)
        return d.c % c == 0 and all(k % c == 0 for k in d.t.values())

    def gen_candidates(self, st0, havoc, lid, frame, H=None, backs=()):
        cands = []
        hint = [(c, kp) for (c, kp), kind in havoc.items() if kind == "int"]
        # strides: a loop-carried integer that moves by a constant c (|c| >= 2) stays congruent to its entry value
        seen = set()
        for leaf in hint:
            h = self.leaf_lin(H, *leaf) if H is not None else None
            if h is None:
                continue
            for b in backs:
                xb = self.leaf_lin(b, *leaf)
                if xb is None:
                    continue
                d = xb - h
                if d.is_const() and abs(d.c) >= 2 and (leaf, abs(d.c)) not in seen:
                    seen.add((leaf, abs(d.c)))
                    cands.append(("stride", leaf, abs(d.c)))
        # neighbourhood: int leaves in the same cells as havoced leaves and in the frame's locals
        neigh = []
        cells = set(c for c, _ in hint) | set(c for (c, _kp) in havoc)      # (a buffer whose content changes: its length is a neighbour)
        if self.opts.get("wide_candidates"):
            cells |= set(frame.cells)
        for cell in cells:
            v = st0.cells.get(cell)
            if v is None:
                continue
            if isinstance(v, VInt):
                neigh.append((cell, (), v))
            else:
                self.int_leaves(st0, cell, v, (), neigh)
        for (cell, kp) in hint:
            old = self.vget(st0.cells[cell], kp)
            if not isinstance(old, VInt):
                continue
            cands.append(("ge0", (cell, kp)))
            cands.append(("le0", (cell, kp)))
            # small constant lower bounds (a counter that stops at 1, a remaining length that stays positive)
            for cst in (2, 1):
                if entails(st0.cons, c_le(Lin.const(cst), old.lin), self.ranges):
                    cands.append(("gec", (cell, kp), cst))
            for (c2, kp2, v2) in neigh:
                if (c2, kp2) == (cell, kp):
                    continue
                if len(neigh) > 60 and c2 != cell and c2 not in frame.cells:
                    continue
                if entails(st0.cons, c_lt(old.lin, v2.lin), self.ranges):
                    cands.append(("lt", (cell, kp), (c2, kp2)))
                if entails(st0.cons, c_le(old.lin, v2.lin), self.ranges):
                    cands.append(("le", (cell, kp), (c2, kp2)))
                if entails(st0.cons, c_le(v2.lin, old.lin), self.ranges):
                    cands.append(("ge", (cell, kp), (c2, kp2)))
        # conserved linear combinations of two loop-carried integers (e.g. octets remaining + 2 * items read)
        for i in range(len(hint)):
            for j in range(i + 1, len(hint)):
                for k in (1, -1, 2, -2, 4, -4, 8, -8, 16, -16):
                    cands.append(("lin2", hint[i], hint[j], k))
        # ... and of three (items consumed = items kept + items rejected, in a hand-written partition loop)
        if 3 <= len(hint) <= 7:
            for i in range(len(hint)):
                for j in range(len(hint)):
                    for k in range(j + 1, len(hint)):
                        if i != j and i != k:
                            cands.append(("lin3", hint[i], hint[j], hint[k]))
        return cands

    def leaf_lin(self, st, cell, kp):
        v = st.cells.get(cell)
        if v is None:
            return None
        x = self.vget(v, kp) if kp else v
        if isinstance(x, VInt):
            return x.lin
        return None

    def inst_cand(self, st, c, havoc, lid):
        kind = c[0]
        a = self.leaf_lin(st, *c[1])
        if a is None:
            return None
        if kind == "gec":
            return c_le(Lin.const(c[2]), a)
        if kind == "stride":
            e0 = self._entry.get((lid, c[1]))
            if e0 is None:
                return None
            return c_eq(a, e0 + Lin.sym(self.stride_sym(lid, c[1], c[2])).scale(c[2]))
        if kind in ("ge0", "le0"):
            e0 = self._entry.get((lid, c[1]))
            if e0 is None:
                return None
            return c_le(e0, a) if kind == "ge0" else c_le(a, e0)
        b = self.leaf_lin(st, *c[2])
        if b is None:
            return None
        if kind == "lin3":
            d = self.leaf_lin(st, *c[3])
            ea, eb, ed = (self._entry.get((lid, c[i])) for i in (1, 2, 3))
            if d is None or ea is None or eb is None or ed is None:
                return None
            return c_eq(a - b - d, ea - eb - ed)
        if kind == "lin2":
            ea = self._entry.get((lid, c[1]))
            eb = self._entry.get((lid, c[2]))
            if ea is None or eb is None:
                return None
            return c_eq(a + b.scale(c[3]), ea + eb.scale(c[3]))
        if kind == "lt":
            return c_lt(a, b)
        return c_le(a, b) if kind == "le" else c_le(b, a)

    def cand_str(self, c):
        if c[0] == "lin3":
            return "%s - %s - %s conserved" % (self.leaf_name(*c[1]), self.leaf_name(*c[2]), self.leaf_name(*c[3]))
        if c[0] == "lin2":
            return "%s %+d*%s conserved" % (self.leaf_name(*c[1]), c[3], self.leaf_name(*c[2]))
        if c[0] == "gec":
            return "%s >= %d" % (self.leaf_name(*c[1]), c[2])
        if c[0] == "stride":
            return "%s = entry (mod %d)" % (self.leaf_name(*c[1]), c[2])
        if c[0] in ("ge0", "le0"):
            return "%s %s entry" % (self.leaf_name(*c[1]), ">=" if c[0] == "ge0" else "<=")
        if c[0] == "lt":
            return "%s < %s" % (self.leaf_name(*c[1]), self.leaf_name(*c[2]))
        return "%s %s %s" % (self.leaf_name(*c[1]), "<=" if c[0] == "le" else ">=", self.leaf_name(*c[2]))

    def rank_check(self, frame, head, H, backs, havoc, lid, cands):
        """some loop-carried integer strictly progresses towards a bound on every back edge"""
        ints = [(c, kp) for (c, kp), k in havoc.items() if k == "int"]
        found = None
        for (cell, kp) in ints:
            h = self.leaf_lin(H, cell, kp)
            if h is None:
                continue
            # decreasing and bounded below by its type/contract range
            lo, hi = self.bounds(H, h)
            if lo is not None and all(
                    (lambda b: (self.leaf_lin(b, cell, kp) is not None and
                                entails(b.cons, c_le(self.leaf_lin(b, cell, kp), h - 1), self.ranges)))(b)
                    for b in backs):
                found = "%s decreases, bounded below by %s" % (self.leaf_name(cell, kp), lo)
                break
            # progressing towards a loop-invariant bound that the guard enforces on every iteration that continues:
            # a constraint  k*x + rest <= 0  (k != 0, rest free of loop-carried symbols) on every back edge, and x moves
            # by at least 1 in the direction of the bound
            hs = self.hsym(lid, cell, kp)
            hsyms = set(self.hsym(lid, c_, kp_) for (c_, kp_) in havoc)
            if backs and h == Lin.sym(hs):
                for (e, k_) in backs[0].cons:
                    if k_ != "le" or hs not in e.t or any(s_ in hsyms and s_ != hs for s_ in e.t):
                        continue
                    up = e.t[hs] > 0
                    ok = True
                    for b in backs:
                        xb = self.leaf_lin(b, cell, kp)
                        if xb is None or not entails(b.cons, (e, "le"), self.ranges) or \
                                not entails(b.cons, c_le(h + 1, xb) if up else c_le(xb, h - 1), self.ranges):
                            ok = False
                            break
                    if ok:
                        found = "%s %s towards the loop guard's bound" % (self.leaf_name(cell, kp), "increases" if up else "decreases")
                        break
                if found:
                    break
            # increasing towards another leaf that is an invariant upper bound
            for c in cands:
                if c[0] in ("le", "lt") and c[1] == (cell, kp):
                    ok = True
                    for b in backs:
                        xb = self.leaf_lin(b, cell, kp)
                        yb = self.leaf_lin(b, *c[2])
                        yh = self.leaf_lin(H, *c[2])
                        if xb is None or yb is None or yh is None:
                            ok = False
                            break
                        # (y' - x') <= (y - x) - 1
                        if not entails(b.cons, c_le(yb - xb, yh - h - 1), self.ranges):
                            ok = False
                            break
                    if ok:
                        found = "%s - %s decreases, >= 0" % (self.leaf_name(*c[2]), self.leaf_name(cell, kp))
                        break
                if c[0] == "ge" and c[1] == (cell, kp):
                    ok = True
                    for b in backs:
                        xb = self.leaf_lin(b, cell, kp)
                        yb = self.leaf_lin(b, *c[2])
                        yh = self.leaf_lin(H, *c[2])
                        if xb is None or yb is None or yh is None:
                            ok = False
                            break
                        if not entails(b.cons, c_le(xb - yb, h - yh - 1), self.ranges):
                            ok = False
                            break
                    if ok:
                        found = "%s - %s decreases, >= 0" % (self.leaf_name(cell, kp), self.leaf_name(*c[2]))
                        break
            if found:
                break
        if not backs:
            found = "no feasible back edge"
        # finite iterators (array::IntoIter / slice::Iter / vec::IntoIter) terminate by construction
        if not found:
            for (cell, kp), k in havoc.items():
                v = H.cells.get(cell)
                x = self.vget(v, kp) if (v is not None and kp) else v
                if isinstance(x, VIter):
                    found = "finite iterator %s" % x.kind
                    break
        self.oblig("rank", frame, head, "loop", bool(found), H if not found else None,
                   found or "no ranking function found among loop-carried integers", None)


class TrialOver(Exception):
    """a trial run exceeded its block budget"""


class Frame_:
    __slots__ = ("fn", "body", "cells", "key", "fid", "depth", "ctxname", "persistent", "gargs")

    def __init__(self, fn, body, fid, depth, ctxname, persistent=False):
        self.fn = fn
        self.body = body
        self.fid = fid
        self.key = fn["key"]
        self.depth = depth
        self.ctxname = ctxname
        self.cells = [(fid, i) for i in range(len(body["locals"]))]
        self.persistent = persistent
        self.gargs = None            # generic arguments of the instance being analysed ([Self, ...] for a trait default method)
