#!/usr/bin/env python3
"""tools/mutrun.py <worktree> <patch> [checks...]: apply patch in the scratch worktree, run checks with
L2TP_REPO=<worktree>, revert.  Prints which checks alarm."""
import os, subprocess, sys, glob, json
wt, patch = sys.argv[1], sys.argv[2]
checks = sys.argv[3:] or sorted(os.path.basename(p)[:-3].upper() for p in glob.glob('/verif/rules/c[0-9][0-9].py'))
subprocess.check_call(['git', 'checkout', '-q', '--', 'src'], cwd=wt)
subprocess.check_call(['git', 'apply', patch], cwd=wt)
res = {}
import shutil
shutil.rmtree(os.path.join(wt, 'target', 'verif-out'), ignore_errors=True)
try:
    env = dict(os.environ, L2TP_REPO=wt, VERIF_OUT=os.path.join(wt, 'target', 'verif-out'), VERIF_SELFTEST_CHILD='1')
    procs = {c: subprocess.Popen(['./check', c], cwd='/verif', env=env, stdout=subprocess.PIPE, stderr=subprocess.STDOUT, text=True) for c in checks}
    for c, p in procs.items():
        out, _ = p.communicate()
        keys = [l.strip() for l in out.splitlines() if l.startswith('  ') and ' | ' in l]
        res[c] = (p.returncode, keys[:4], out.splitlines()[-1] if out.strip() else '')
finally:
    subprocess.check_call(['git', 'checkout', '-q', '--', 'src'], cwd=wt)
for c in checks:
    rc, keys, last = res[c]
    tag = 'ALARM' if rc == 1 else ('ok' if rc == 0 else 'ERROR rc=%s' % rc)
    print('%s %-6s %s' % (c, tag, '; '.join(keys)[:300] if rc == 1 else (last if rc != 0 else '')))
