#!/usr/bin/env python3
import os, sys
txt = open(sys.argv[1] if len(sys.argv) > 1 else '/verif/seeded/matrix.txt').read()
cur = None; res = {}
for l in txt.splitlines():
    if l.startswith('== '): cur = l[3:]; res[cur] = {'alarm': [], 'err': []}
    elif cur and ' ALARM' in l: res[cur]['alarm'].append(l.split()[0])
    elif cur and 'ERROR' in l: res[cur]['err'].append(l.split()[0])
own_missed = []
for k in sorted(res):
    own = k.split('-')[0]
    flag = '' if own in res[k]['alarm'] else '   <-- own property check silent'
    if flag: own_missed.append(k)
    print('%-6s caught by %-40s %s%s' % (k, ','.join(res[k]['alarm']) or '-', ('ERR:' + ','.join(res[k]['err'])) if res[k]['err'] else '', flag))
print('mutants:', len(res), 'caught by some check:', sum(1 for k in res if res[k]['alarm']), 'caught by own property check:', len(res) - len(own_missed))
