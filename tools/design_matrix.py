#!/usr/bin/env python3
"""print the DESIGN.md table of seeded changes from seeded/matrix*.txt and seeded/descriptions.json"""
import json, os, re
V='/verif'
desc=json.load(open(V+'/seeded/descriptions.json'))
res={}
for fn in ('matrix.txt','matrix2.txt'):
    p=V+'/seeded/'+fn
    if not os.path.exists(p): continue
    cur=None
    for l in open(p).read().splitlines():
        if l.startswith('== '): cur=l[3:]; res[cur]=[]
        elif cur and ' ALARM' in l: res[cur].append(l.split()[0])
print('| change | what it does (needs to manifest) | reported by |')
print('|---|---|---|')
for k in sorted(res, key=lambda x:(x.split('-')[0], int(x.split('-')[1]))):
    own=k.split('-')[0]
    by=', '.join(('**%s**'%c if c==own else c) for c in res[k]) or 'none'
    print('| %s | %s | %s |' % (k, desc.get(k,''), by))
tot=len(res); some=sum(1 for k in res if res[k]); own=sum(1 for k in res if k.split('-')[0] in res[k])
print()
print('%d changes; %d reported by at least one check; %d reported by the check of the property they were written against.' % (tot, some, own))
