#!/bin/bash
# apply each behaviour-preserving refactor of selftest/silent to a scratch worktree and require every check to stay silent
cd /verif
WT=/tmp/wt_silent
[ -d $WT ] || git -C /repo worktree add -q --detach $WT HEAD
git -C $WT checkout -q --detach $(git -C /repo rev-parse HEAD)
for d in selftest/silent/S*.diff; do
  n=$(basename $d .diff)
  echo "== $n"
  python3 tools/mutrun.py $WT /verif/$d "$@" 2>&1 | grep -v " ok " | cut -c1-400
done
