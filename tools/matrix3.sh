#!/bin/bash
# round-3 seeded changes (seeded/Cxx-5, Cxx-6; worktrees /tmp/mut3/Cxx) against every check -> seeded/matrix3.txt
cd /verif
run() { P=$1; I=$2; [ -f /verif/seeded/$P-$I/patch.diff ] || return; echo "== $P-$I"; python3 tools/mutrun.py /tmp/mut3/$P /verif/seeded/$P-$I/patch.diff 2>&1 | cut -c1-260; }
for p in 01 02 03 04 05 06 07 08 09 10 11 12 13 14 15 16 17 18 19 20; do
  ( for i in 5 6; do run C$p $i; done > /tmp/mut3/matrix_C$p.txt 2>&1 ) &
  if (( $(jobs -r | wc -l) >= 5 )); then wait -n; fi
done
wait
cat /tmp/mut3/matrix_C*.txt > seeded/matrix3.txt
