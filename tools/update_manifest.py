#!/usr/bin/env python3
"""regenerate MANIFEST.json from the table below + which rule modules exist"""
import json, os, glob
V = os.path.dirname(os.path.dirname(os.path.abspath(__file__)))
T = {
 "C01": ("proof", "path-sensitive abstract interpretation over MIR (exact linear constraints, own Fourier-Motzkin entailment, Houdini loop invariants): every arith/bounds/unwrap/unsafe/reader-pre/panic/rank obligation of the decode closure discharged, for the Reader contract and for SliceReader's bodies"),
 "C02": ("proof", "assume-guarantee against the Reader contract: every reader call-site precondition discharged by abstract interpretation; parametricity check on the resolved call graph"),
 "C03": ("other", "sibling cross-check of every encoder/decoder pair: token layouts from abstract execution, post-hoc matching (infeasible rejections, same fields at same positions), dispatch table agreement"),
 "C04": ("other", "sibling cross-check: data encoder token layouts (16 configurations) matched post hoc against all strict-decoder paths; field provenance agreement"),
 "C05": ("other", "decoder layouts, minimum lengths, UTF-8 placement and header acceptance rules extracted by abstract execution and compared with independent RFC tables"),
 "C06": ("proof", "encoder token layouts (width, order, constant/field provenance) of every path compared with independent RFC tables"),
 "C07": ("proof", "linear equalities between back-patched length values and the writer-length ghost; bit provenance of the AVP flag octet; per-variant get_length equality; narrowing-cast obligations"),
 "C08": ("proof", "consumption ghost (octets consumed = declared length) on every accepting path; sub-reader isolation via event traces; per-iteration consumption of the AVP loop"),
 "C09": ("proof", "writer-pre + lower-bound obligations on every positional overwrite for a symbolic prefix length; position-taint dataflow (absolute positions may only be overwrite offsets)"),
 "C10": ("other", "structural necessary conditions: decode image inside the encodable domain; encoder provenance never includes received framing; retention of every field the encoder reads"),
 "C11": ("other", "sibling cross-check of hide/reveal: plaintext shape, MD5 input composition, XOR alignment, chain-dependence direction via array segmentation"),
 "C12": ("other", "MD5-chain construction extracted from buffer shapes and compared with the RFC 2661 4.3 table; purity via call-graph effects"),
 "C13": ("proof", "abstract interpretation of AVP::reveal for all hidden values (contract and SliceReader bodies); rejection and announced-type clauses on return paths"),
 "C14": ("proof", "bit-level non-interference: option gating of every flag-bit use, monotonicity of option branches, default entry point aggregate"),
 "C15": ("other", "push-count ghost and must-pass-through rules over the greedy loop and ControlMessage::try_read paths"),
 "C16": ("proof", "finite code tables extracted by abstract execution / resolved HIR initialiser, compared exhaustively with RFC tables"),
 "C17": ("proof", "symbolic bit provenance of constructors and accessors; wire word identity"),
 "C18": ("proof", "per-method verification of SliceReader/VecWriter against the contract tables (requires/ensures) with region values"),
 "C19": ("proof", "call-graph effect analysis (who-may-call) over resolved callees; static inventory; thread-local / pointer-exposure scan"),
 "C20": ("proof", "name table vs dispatch table; own-attribute-type and offending-value provenance of every constructed DecodeError; Display arms"),
}
TEXT = {
 "C01": "For all inputs and all 8 option sets at once: every arithmetic op, index, unwrap, unsafe precondition, reader precondition, reachable panic and loop ranking obligation in the decode closure is discharged (quick tier: overflow-checks and debug-assertions configurations; thorough adds the release configuration); Err lists proven non-empty. Proof level because the obligations are the property; wall-clock bounds and allocation failure are out of scope.",
 "C02": "Every Reader call site of the codec is proven to request only octets that remain (contract side of an assume-guarantee argument whose other side is C18); 'same result for every conforming reader' follows from parametricity plus a structural no-reflection check and is recorded as an argument, not an enumeration.",
 "C03": "Structural necessary conditions of decode(encode(v)) = v for all 40 variants and the control header (dispatch, per-partition layout and field agreement, no length-class rejection of encoder output). The value-level equation itself is not decided by a static argument in reach; hence 'other'.",
 "C04": "All 16 L/S/O/P configurations and all field values at once: encoder layout, infeasibility of every rejecting decoder path on encoder output, field provenance agreement, payload extent, full consumption. Octet equality through to_be_bytes etc. is trusted std semantics; hence 'other'.",
 "C05": "Conformance of the decoder's shape to independent RFC 2661 tables (per-kind layouts, minimum lengths, UTF-8 placement, strict header rules, vendor rule, non-influence of M/reserved AVP bits, extents). Full language equivalence on every input needs an executable reference (another technique family); hence 'other'.",
 "C06": "Encoders are straight-line token emitters, so layout = output: every path's token layout (width, order, constant or field provenance), flag words, framing and length fields equal the independent spec tables, up to the trusted semantics of to_be_bytes/extend_from_slice/push.",
 "C07": "Linear equalities between each back-patched length and the writer-length ghost, bit provenance of the AVP flag octet, 6+get_length = octets emitted on every path of every variant, tiling, hide's length subfield; every narrowing cast discharged by a dominating refusal.",
 "C08": "Consumption ghost equals the declared length on every accepting path; event traces show isolation of the AVP region and of each AVP record; accepting paths bound the remaining input only from below, so trailing octets cannot change an accept.",
 "C09": "For a symbolic prefix length and any conforming writer: every positional overwrite lies inside the value being encoded; no emitted octet or branch depends on an absolute position (taint dataflow).",
 "C10": "Three structural necessary conditions of the one-round fixed point (decode image inside the encodable domain, no echo of received framing, verbatim retention) plus the C03/C04 round-trip cross-checks. The fixed-point equation over all accepted byte strings is not decided; hence 'other'.",
 "C11": "hide and reveal cross-checked as siblings: plaintext shape, MD5 input compositions, XOR alignment, chain dependence by loop direction, inverse framing, acceptance of every fitting length. reveal(hide(a)) = a as an equation over values (XOR/MD5 semantics) is not decided; hence 'other'.",
 "C12": "The construction coded in hide/reveal (plaintext layout, original length, minimal alignment, key input orders, chaining on ciphertext, block XOR, clear type, purity) equals the table written from RFC 2661 4.3. Octet-for-octet equality with a reference and the md5 crate are not decided; hence 'other'.",
 "C13": "All obligations of AVP::reveal for every hidden value, attribute type, secret and random vector (Reader contract and SliceReader bodies); accepted values are non-empty multiples of 16; the result variant is the announced type.",
 "C14": "Bit-level non-interference with all 8 option sets symbolic: each option consults exactly its own header bits and only when on; Yes-only regions only reject or rejoin; no decoded field depends on an option; default = {version}.",
 "C15": "Structural clauses: one result per AVP record in wire order, vendor rule, loop stops only at an unusable length, first-AVP and all-ok tests on the same vector, complete unaltered lists, ZLB. Attribution e[i] <-> i-th bad record rests on std's filter_map/collect; hence 'other'.",
 "C16": "Six finite code spaces decided exhaustively: the accept sets are defined by finitely many compiler-resolved rows, extracted by abstract execution and compared with the RFC tables and with each other (decode/encode inverse).",
 "C17": "Symbolic bit provenance covers all four boolean combinations and all 2^32 words: constructor bit shape, accessor = own bit only, RFC position, identity on the wire.",
 "C18": "Each of the 9+8 methods verified against the contract (requires => obligations discharged, ensures proven) from an arbitrary state satisfying the representation invariant; inductive, hence every call sequence.",
 "C19": "Effect-freedom over the resolved call graph from every externally reachable function, plus the static inventory: a state-free, effect-free function of its arguments gives the same result on every repetition, interleaving and thread.",
 "C20": "Table clauses decided exactly (name table = dispatch on all 65536 numbers, own attribute type, one total rendering arm per variant); offending-value clause by provenance; a first-AVP fault is reported as itself. Single-fault list attribution rests on C15."
}
props = [json.loads(l) for l in open(os.path.join(V, "properties.jsonl"))]
have = sorted(os.path.basename(p)[:-3].upper() for p in glob.glob(os.path.join(V, "rules", "c[0-9][0-9].py")))
old = json.load(open(os.path.join(V, "MANIFEST.json")))
checks = []
for p in props:
    pid = p["id"]
    if pid in have:
        lvl, tech = T[pid]
        checks.append({"property_id": pid, "quick_cmd": "./check %s --tier quick" % pid, "thorough_cmd": "./check %s --tier thorough" % pid,
                       "evidence_file": "/verif/evidence/%s.json" % pid, "replay_cmd_template": "cat {path}", "engine": "E0 facts + lenflow/layout/tables/effects",
                       "level_claimed": {"category": lvl, "text": TEXT[pid], "design_ref": "DESIGN.md sections 4 and 8.3, " + pid},
                       "level_note": "trusted base: rustc MIR, stub table of std/md5/phf semantics, spec/*.json as the reading of RFC 2661, own FM entailment (sound, incomplete). The Reader/Writer contract entries this check's proof applies are discharged for SliceReader/VecWriter inside the check itself (keys `contract | ...`); clauses owned by another property that this one's statement contains are borrowed (keys `via Cxx | ...`). An obligation that fails downstream of an unmodelled callee's result (or a rule-level clause of a check that abandoned a path) is reported as UNDECIDED (exit 0), not as a violation; a failure on a path no unknown result had touched stands (DESIGN.md 8.10). The thorough tier also runs the checker self-test on scratch copies (DESIGN.md 8.8).",
                       "technique": tech})
na = [{"property_id": p["id"], "reason": "check under construction in this session (static rule planned in DESIGN.md section 4); not claimed until it exists"}
      for p in props if p["id"] not in have]
old["checks"] = checks
old["not_applicable"] = na
for e in old.get("engines", []):
    if e["name"].startswith("E0"):
        e["serves_properties"] = have
json.dump(old, open(os.path.join(V, "MANIFEST.json"), "w"), indent=1)
print("claimed:", have, "not yet:", [x["property_id"] for x in na])
