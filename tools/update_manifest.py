#!/usr/bin/env python3
"""regenerate MANIFEST.json from the table below + which rule modules exist"""
import json, os, glob
V = os.path.dirname(os.path.dirname(os.path.abspath(__file__)))
T = {
 "C01": ("proof", "path-sensitive abstract interpretation over MIR (exact linear constraints, own Fourier-Motzkin entailment, Houdini loop invariants): every arith/bounds/unwrap/unsafe/reader-pre/panic/rank obligation of the decode closure discharged, for the Reader contract and for SliceReader's bodies"),
 "C02": ("proof", "assume-guarantee against the Reader contract: every reader call-site precondition discharged by abstract interpretation; parametricity check on the resolved call graph"),
 "C03": ("other", "sibling cross-check of every encoder/decoder pair: token layouts from abstract execution, post-hoc matching (infeasible rejections, same fields at same positions), dispatch table agreement"),
 "C04": ("other", "sibling cross-check: data encoder token layouts (16 configurations) matched post hoc against all strict-decoder paths; field provenance agreement"),
 "C05": ("other", "decoder layouts, minimum lengths, UTF-8 placement and header acceptance rules extracted by abstract execution and compared with independent RFC tables"),
 "C06": ("proof", "encoder token layouts (width, order, constant/field provenance) of every path compared with independent RFC tables"),
 "C07": ("proof", "linear equalities between back-patched length values and the writer-length ghost; bit provenance of the AVP flag octet; per-variant get_length equality; narrowing-cast obligations"),
 "C08": ("proof", "consumption ghost (octets consumed = declared length) on every accepting path; sub-reader isolation via event traces; per-iteration consumption of the AVP loop"),
 "C09": ("proof", "writer-pre + lower-bound obligations on every positional overwrite for a symbolic prefix length; position-taint dataflow (absolute positions may only be overwrite offsets)"),
 "C10": ("other", "structural necessary conditions: decode image inside the encodable domain; encoder provenance never includes received framing; retention of every field the encoder reads"),
 "C11": ("other", "sibling cross-check of hide/reveal: plaintext shape, MD5 input composition, XOR alignment, chain-dependence direction via array segmentation"),
 "C12": ("other", "MD5-chain construction extracted from buffer shapes and compared with the RFC 2661 4.3 table; purity via call-graph effects"),
 "C13": ("proof", "abstract interpretation of AVP::reveal for all hidden values (contract and SliceReader bodies); rejection and announced-type clauses on return paths"),
 "C14": ("proof", "bit-level non-interference: option gating of every flag-bit use, monotonicity of option branches, default entry point aggregate"),
 "C15": ("other", "push-count ghost and must-pass-through rules over the greedy loop and ControlMessage::try_read paths"),
 "C16": ("proof", "finite code tables extracted by abstract execution / resolved HIR initialiser, compared exhaustively with RFC tables"),
 "C17": ("proof", "symbolic bit provenance of constructors and accessors; wire word identity"),
 "C18": ("proof", "per-method verification of SliceReader/VecWriter against the contract tables (requires/ensures) with region values"),
 "C19": ("proof", "call-graph effect analysis (who-may-call) over resolved callees; static inventory; thread-local / pointer-exposure scan"),
 "C20": ("proof", "name table vs dispatch table; own-attribute-type and offending-value provenance of every constructed DecodeError; Display arms"),
}
props = [json.loads(l) for l in open(os.path.join(V, "properties.jsonl"))]
have = sorted(os.path.basename(p)[:-3].upper() for p in glob.glob(os.path.join(V, "rules", "c[0-9][0-9].py")))
old = json.load(open(os.path.join(V, "MANIFEST.json")))
checks = []
for p in props:
    pid = p["id"]
    if pid in have:
        lvl, tech = T[pid]
        checks.append({"property_id": pid, "quick_cmd": "./check %s --tier quick" % pid, "thorough_cmd": "./check %s --tier thorough" % pid,
                       "evidence_file": "/verif/evidence/%s.json" % pid, "replay_cmd_template": "cat {path}", "engine": "E0 facts + lenflow/layout/tables/effects",
                       "level_claimed": {"category": lvl, "text": "DESIGN.md section 4, %s: what is decided and what is not" % pid, "design_ref": "DESIGN.md#4-" + pid},
                       "level_note": "trusted base: rustc MIR, stub table of std/md5/phf semantics, Reader/Writer contract tables, spec/*.json as the reading of RFC 2661, own FM entailment (sound, incomplete)",
                       "technique": tech})
na = [{"property_id": p["id"], "reason": "check under construction in this session (static rule planned in DESIGN.md section 4); not claimed until it exists"}
      for p in props if p["id"] not in have]
old["checks"] = checks
old["not_applicable"] = na
for e in old.get("engines", []):
    if e["name"].startswith("E0"):
        e["serves_properties"] = have
json.dump(old, open(os.path.join(V, "MANIFEST.json"), "w"), indent=1)
print("claimed:", have, "not yet:", [x["property_id"] for x in na])
