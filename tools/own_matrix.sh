#!/bin/bash
# every seeded change against the check of the property it was written for (scratch worktrees /tmp/mut3/Cxx) -> seeded/own_matrix.txt
cd /verif
for p in 01 02 03 04 05 06 07 08 09 10 11 12 13 14 15 16 17 18 19 20; do
  ( for i in 1 2 3 4 5 6 7 8 9 10; do
      [ -f seeded/C$p-$i/patch.diff ] || continue
      echo "C$p-$i $(python3 tools/mutrun.py /tmp/mut3/C$p /verif/seeded/C$p-$i/patch.diff C$p 2>&1 | cut -c1-200)"
    done > /tmp/mut3/own_C$p.txt 2>&1 ) &
  if (( $(jobs -r | wc -l) >= 8 )); then wait -n; fi
done
wait
cat /tmp/mut3/own_C*.txt > seeded/own_matrix.txt
