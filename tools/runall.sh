#!/bin/bash
# run every check's quick tier on /repo (in parallel), print the summary lines
cd /verif
for f in rules/c[0-9][0-9].py; do c=$(basename $f .py | tr a-z A-Z); ( ./check $c > /tmp/runall_$c.log 2>&1; echo "rc=$? $(tail -1 /tmp/runall_$c.log)" ) & done; wait
