#!/bin/bash
# run every seeded change against every check (in the scratch worktrees); output seeded/matrix.txt
cd /verif
out=seeded/matrix.txt; : > $out.tmp
run() { P=$1; I=$2; echo "== $P-$I"; python3 tools/mutrun.py /tmp/mut/$P /verif/seeded/$P-$I/patch.diff 2>&1 | cut -c1-260; }
for p in 01 02 03 04 05 06 07 08 09 10 11 12 13 14 15 16 17 18 19 20; do
  ( for i in 1 2; do run C$p $i; done > /tmp/mut/matrix_C$p.txt 2>&1 ) &
  if (( $(jobs -r | wc -l) >= 5 )); then wait -n; fi
done
wait
cat /tmp/mut/matrix_C*.txt > $out; rm -f $out.tmp
