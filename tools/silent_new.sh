#!/bin/bash
# tools/silent_new.sh <first> <last>: run the refactors S<first>..S<last> only (WT=<worktree> to choose the scratch worktree)
cd /verif
WT=${WT:-/tmp/wt_silent}
[ -d $WT ] || git -C /repo worktree add -q --detach $WT HEAD
for d in selftest/silent/S*.diff; do
  n=$(basename $d .diff); k=${n#S}; k=${k%%_*}; k=$((10#$k))
  (( k >= $1 && k <= $2 )) || continue
  echo "== $n"
  python3 tools/mutrun.py $WT /verif/$d 2>&1 | grep -v " ok " | cut -c1-400
done
