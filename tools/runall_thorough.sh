#!/bin/bash
cd /verif
for f in rules/c[0-9][0-9].py; do c=$(basename $f .py | tr a-z A-Z); ( ./check $c --tier thorough > /tmp/runallT_$c.log 2>&1; echo "rc=$? $(tail -1 /tmp/runallT_$c.log)" ) & done; wait
