#!/bin/bash
# tools/dbg.sh <patch> [checks...]: apply a patch in the debug worktree /tmp/wt_dbg, run the checks there, revert
WT=/tmp/wt_dbg
[ -d $WT ] || git -C /repo worktree add -q --detach $WT HEAD
P=$(realpath $1); shift
cd /verif && python3 tools/mutrun.py $WT $P "$@"
