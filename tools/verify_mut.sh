#!/bin/bash
# tools/verify_mut.sh <Cxx> <i>: confirm a seeded change in its scratch worktree:
# suite passes with it, demo fails with it, demo passes without it.
P=$1; I=$2; WT=${MUTDIR:-/tmp/mut}/$P
export CARGO_TARGET_DIR=$WT/target CARGO_NET_OFFLINE=true
cd $WT || exit 2
git checkout -q -- src; rm -rf tests
git apply OUT/patch$I.diff || { echo "$P/$I apply-failed"; exit 1; }
S=$(cargo test --offline 2>&1 | grep -c "test result: ok")
mkdir -p tests; cp OUT/demo$I.rs tests/demo$I.rs
cargo test --offline --test demo$I >/dev/null 2>&1; D1=$?
git checkout -q -- src
cargo test --offline --test demo$I >/dev/null 2>&1; D0=$?
rm -rf tests
echo "$P/$I suite_ok_lines=$S demo_with_change_rc=$D1 demo_clean_rc=$D0"
