// E0: fact extractor for the rl2tp static checks.
//
// Runs as RUSTC_WORKSPACE_WRAPPER under `cargo +nightly check --lib`; for the
// crate named in L2TP_FACTS_CRATE (default "rl2tp") it dumps, after analysis,
// one JSON file (L2TP_FACTS_OUT) with ADTs, evaluated consts, statics (HIR
// initialiser), trait/impl structure and the MIR of every body with resolved
// callees.  It contains no rules.
#![feature(rustc_private)]

extern crate rustc_abi;
extern crate rustc_ast;
extern crate rustc_driver;
extern crate rustc_hir;
extern crate rustc_interface;
extern crate rustc_middle;
extern crate rustc_span;

use rustc_driver::Compilation;
use rustc_hir as hir;
use rustc_hir::def::{DefKind, Res};
use rustc_hir::def_id::{DefId, LocalDefId, LOCAL_CRATE};
use rustc_middle::mir::{self, interpret::Scalar, ConstValue};
use rustc_middle::ty::{self, print::with_no_trimmed_paths, Ty, TyCtxt, TypeVisitableExt, TypingEnv};
use std::collections::HashMap;
use std::fmt::Write as _;

// ---------------------------------------------------------------- JSON

#[derive(Clone)]
enum J {
    Null,
    Bool(bool),
    Num(String),
    Str(String),
    Arr(Vec<J>),
    Obj(Vec<(&'static str, J)>),
}

fn num<T: std::fmt::Display>(x: T) -> J {
    J::Num(x.to_string())
}
fn s<T: Into<String>>(x: T) -> J {
    J::Str(x.into())
}

fn esc(out: &mut String, st: &str) {
    out.push('"');
    for c in st.chars() {
        match c {
            '"' => out.push_str("\\\""),
            '\\' => out.push_str("\\\\"),
            '\n' => out.push_str("\\n"),
            '\r' => out.push_str("\\r"),
            '\t' => out.push_str("\\t"),
            c if (c as u32) < 0x20 => {
                let _ = write!(out, "\\u{:04x}", c as u32);
            }
            c => out.push(c),
        }
    }
    out.push('"');
}

fn ser(out: &mut String, j: &J) {
    match j {
        J::Null => out.push_str("null"),
        J::Bool(b) => out.push_str(if *b { "true" } else { "false" }),
        J::Num(n) => out.push_str(n),
        J::Str(st) => esc(out, st),
        J::Arr(v) => {
            out.push('[');
            for (i, x) in v.iter().enumerate() {
                if i > 0 {
                    out.push(',');
                }
                ser(out, x);
            }
            out.push(']');
        }
        J::Obj(v) => {
            out.push('{');
            for (i, (k, x)) in v.iter().enumerate() {
                if i > 0 {
                    out.push(',');
                }
                esc(out, k);
                out.push(':');
                ser(out, x);
            }
            out.push('}');
        }
    }
}

// ---------------------------------------------------------------- dumper

struct Dumper<'tcx> {
    tcx: TyCtxt<'tcx>,
    ty_ids: HashMap<Ty<'tcx>, usize>,
    tys: Vec<J>,
}

impl<'tcx> Dumper<'tcx> {
    fn key(&self, d: DefId) -> String {
        format!(
            "{}{}",
            self.tcx.crate_name(d.krate),
            self.tcx.def_path(d).to_string_no_crate_verbose()
        )
    }
    fn name(&self, d: DefId) -> String {
        with_no_trimmed_paths!(self.tcx.def_path_str(d))
    }

    fn line(&self, sp: rustc_span::Span) -> J {
        let sp = sp.source_callsite();
        if sp.is_dummy() {
            return J::Null;
        }
        let sm = self.tcx.sess.source_map();
        let loc = sm.lookup_char_pos(sp.lo());
        let f = format!("{}", loc.file.name.prefer_local_unconditionally());
        s(format!("{}:{}", f, loc.line))
    }

    fn generic_args(&mut self, args: ty::GenericArgsRef<'tcx>) -> J {
        let mut v = vec![];
        for a in args.iter() {
            match a.kind() {
                ty::GenericArgKind::Type(t) => v.push(num(self.ty(t))),
                ty::GenericArgKind::Const(c) => {
                    let val = c.try_to_target_usize(self.tcx);
                    v.push(J::Obj(vec![(
                        "const",
                        match val {
                            Some(x) => num(x),
                            None => s(format!("{:?}", c)),
                        },
                    )]))
                }
                ty::GenericArgKind::Lifetime(_) => {}
            }
        }
        J::Arr(v)
    }

    fn ty(&mut self, t: Ty<'tcx>) -> usize {
        if let Some(&i) = self.ty_ids.get(&t) {
            return i;
        }
        let tcx = self.tcx;
        // evaluate unevaluated array lengths (`[u8; SOME_CONST]`) where that is possible
        if let ty::Array(_, len) = t.kind() {
            if len.try_to_target_usize(tcx).is_none() && !t.has_non_region_param() {
                if let Ok(n) = tcx.try_normalize_erasing_regions(
                    TypingEnv::fully_monomorphized(),
                    rustc_middle::ty::Unnormalized::new_wip(t),
                ) {
                    if n != t {
                        let id = self.ty(n);
                        self.ty_ids.insert(t, id);
                        return id;
                    }
                }
            }
        }
        let ptr_bits = tcx.data_layout.pointer_size().bits();
        let j = match *t.kind() {
            ty::Bool => J::Obj(vec![("k", s("bool"))]),
            ty::Char => J::Obj(vec![("k", s("char"))]),
            ty::Str => J::Obj(vec![("k", s("str"))]),
            ty::Never => J::Obj(vec![("k", s("never"))]),
            ty::Int(it) => J::Obj(vec![
                ("k", s("int")),
                ("w", num(it.bit_width().unwrap_or(ptr_bits))),
                ("s", J::Bool(true)),
                ("n", s(it.name_str())),
            ]),
            ty::Uint(ut) => J::Obj(vec![
                ("k", s("int")),
                ("w", num(ut.bit_width().unwrap_or(ptr_bits))),
                ("s", J::Bool(false)),
                ("n", s(ut.name_str())),
            ]),
            ty::Float(ft) => J::Obj(vec![("k", s("float")), ("n", s(ft.name_str()))]),
            ty::Adt(def, args) => {
                let a = self.generic_args(args);
                J::Obj(vec![
                    ("k", s("adt")),
                    ("name", s(self.name(def.did()))),
                    ("key", s(self.key(def.did()))),
                    ("args", a),
                ])
            }
            ty::Ref(_, inner, m) => {
                let i = self.ty(inner);
                J::Obj(vec![("k", s("ref")), ("mut", J::Bool(m.is_mut())), ("to", num(i))])
            }
            ty::RawPtr(inner, m) => {
                let i = self.ty(inner);
                J::Obj(vec![("k", s("ptr")), ("mut", J::Bool(m.is_mut())), ("to", num(i))])
            }
            ty::Slice(inner) => {
                let i = self.ty(inner);
                J::Obj(vec![("k", s("slice")), ("of", num(i))])
            }
            ty::Array(inner, len) => {
                let i = self.ty(inner);
                let l = len.try_to_target_usize(tcx);
                let lp = match len.kind() {
                    ty::ConstKind::Param(p) => s(p.name.as_str()),
                    _ => J::Null,
                };
                J::Obj(vec![
                    ("k", s("array")),
                    ("of", num(i)),
                    ("len", l.map(num).unwrap_or(J::Null)),
                    ("len_param", lp),
                ])
            }
            ty::Tuple(ts) => {
                let v: Vec<J> = ts.iter().map(|x| num(self.ty(x))).collect();
                J::Obj(vec![("k", s("tuple")), ("of", J::Arr(v))])
            }
            ty::Param(p) => J::Obj(vec![("k", s("param")), ("name", s(p.name.as_str()))]),
            ty::FnDef(d, args) => {
                let a = self.generic_args(args);
                J::Obj(vec![
                    ("k", s("fndef")),
                    ("name", s(self.name(d))),
                    ("key", s(self.key(d))),
                    ("args", a),
                ])
            }
            ty::Closure(d, args) => {
                let ups: Vec<Ty<'tcx>> = args.as_closure().upvar_tys().iter().collect();
                let v: Vec<J> = ups.into_iter().map(|x| num(self.ty(x))).collect();
                J::Obj(vec![
                    ("k", s("closure")),
                    ("key", s(self.key(d))),
                    ("name", s(self.name(d))),
                    ("upvars", J::Arr(v)),
                ])
            }
            ty::FnPtr(..) => J::Obj(vec![("k", s("fnptr")), ("s", s(format!("{:?}", t)))]),
            ty::Dynamic(..) => J::Obj(vec![("k", s("dyn")), ("s", s(format!("{:?}", t)))]),
            ty::Alias(..) => J::Obj(vec![("k", s("alias")), ("s", s(format!("{:?}", t)))]),
            _ => J::Obj(vec![("k", s("other")), ("s", s(format!("{:?}", t)))]),
        };
        let id = self.tys.len();
        self.tys.push(j);
        self.ty_ids.insert(t, id);
        id
    }

    // ---------------------------------------------------------- MIR

    fn place(&mut self, p: &mir::Place<'tcx>) -> J {
        let mut proj = vec![];
        for e in p.projection.iter() {
            proj.push(match e {
                mir::ProjectionElem::Deref => s("deref"),
                mir::ProjectionElem::Field(f, t) => {
                    J::Obj(vec![("f", num(f.index())), ("ty", num(self.ty(t)))])
                }
                mir::ProjectionElem::Index(l) => J::Obj(vec![("idx", num(l.index()))]),
                mir::ProjectionElem::ConstantIndex { offset, min_length, from_end } => {
                    J::Obj(vec![
                        ("cidx", num(offset)),
                        ("min", num(min_length)),
                        ("from_end", J::Bool(from_end)),
                    ])
                }
                mir::ProjectionElem::Subslice { from, to, from_end } => J::Obj(vec![
                    ("sub_from", num(from)),
                    ("sub_to", num(to)),
                    ("from_end", J::Bool(from_end)),
                ]),
                mir::ProjectionElem::Downcast(name, v) => J::Obj(vec![
                    ("dc", num(v.index())),
                    ("name", name.map(|n| s(n.as_str())).unwrap_or(J::Null)),
                ]),
                other => J::Obj(vec![("other", s(format!("{:?}", other)))]),
            });
        }
        J::Obj(vec![("l", num(p.local.index())), ("p", J::Arr(proj))])
    }

    fn fn_ref(&mut self, d: DefId, args: ty::GenericArgsRef<'tcx>, env: TypingEnv<'tcx>) -> J {
        let tcx = self.tcx;
        let mut o = vec![
            ("key", s(self.key(d))),
            ("name", s(self.name(d))),
            ("args", self.generic_args(args)),
            ("local", J::Bool(d.is_local())),
        ];
        if let Some(tr) = tcx.trait_of_assoc(d) {
            o.push(("trait", s(self.name(tr))));
            o.push(("item", s(tcx.item_name(d).as_str())));
            if args.len() > 0 {
                if let Some(t0) = args.get(0).and_then(|a| a.as_type()) {
                    o.push(("self_ty", num(self.ty(t0))));
                }
            }
        }
        let kind = tcx.def_kind(d);
        if let DefKind::Ctor(of, _) = kind {
            // tuple-struct / tuple-variant constructor used as a function value (e.g. `.map(Message::Data)`)
            let sig = tcx.fn_sig(d).instantiate(tcx, args).skip_norm_wip();
            let out = sig.skip_binder().output();
            let out = tcx.try_normalize_erasing_regions(env, ty::Unnormalized::new_wip(out)).unwrap_or(out);
            let mut vidx = 0usize;
            if let hir::def::CtorOf::Variant = of {
                if let ty::Adt(adt, _) = out.kind() {
                    vidx = adt.variant_index_with_ctor_id(d).index();
                }
            }
            o.push(("ctor", J::Obj(vec![("ty", num(self.ty(out))), ("variant", num(vidx))])));
        }
        if matches!(kind, DefKind::Fn | DefKind::AssocFn) {
            match ty::Instance::try_resolve(tcx, env, d, args) {
                Ok(Some(inst)) => {
                    let rd = inst.def_id();
                    let kind = match inst.def {
                        ty::InstanceKind::Item(_) => "item",
                        ty::InstanceKind::Intrinsic(_) => "intrinsic",
                        ty::InstanceKind::Virtual(..) => "virtual",
                        ty::InstanceKind::ClosureOnceShim { .. } => "closure_once_shim",
                        ty::InstanceKind::FnPtrShim(..) => "fn_ptr_shim",
                        ty::InstanceKind::DropGlue(..) => "drop_glue",
                        ty::InstanceKind::CloneShim(..) => "clone_shim",
                        ty::InstanceKind::ReifyShim(..) => "reify_shim",
                        _ => "other",
                    };
                    let ra = self.generic_args(inst.args);
                    o.push((
                        "resolved",
                        J::Obj(vec![
                            ("key", s(self.key(rd))),
                            ("name", s(self.name(rd))),
                            ("kind", s(kind)),
                            ("args", ra),
                            ("local", J::Bool(rd.is_local())),
                        ]),
                    ));
                }
                _ => {}
            }
        }
        J::Obj(o)
    }

    fn scalar_bits(&mut self, si: ty::ScalarInt, t: Ty<'tcx>) -> J {
        let bits: u128 = si.to_bits(si.size());
        J::Obj(vec![("ty", num(self.ty(t))), ("bits", num(bits))])
    }

    fn const_value(&mut self, val: ConstValue, t: Ty<'tcx>) -> J {
        let tcx = self.tcx;
        // constants of struct / enum / tuple type: variant and fields (e.g. an associated const holding default options)
        // constant arrays of enum / struct values (a lookup table of variants): element by element
        if let ty::Array(elem, _) = t.kind() {
            if matches!(elem.kind(), ty::Adt(..) | ty::Tuple(..)) && !matches!(val, ConstValue::ZeroSized) {
                if let Some(d) = tcx.try_destructure_mir_constant_for_user_output(val, t) {
                    if d.fields.len() <= 64 {
                        let elems: Vec<J> = d.fields.iter().map(|(v, ft)| self.const_value(*v, *ft)).collect();
                        return J::Obj(vec![("ty", num(self.ty(t))), ("array_const", J::Arr(elems))]);
                    }
                }
            }
        }
        if matches!(t.kind(), ty::Adt(..) | ty::Tuple(..)) && !matches!(val, ConstValue::ZeroSized) {
            if let ty::Adt(adt, _) = t.kind() {
                if adt.is_union() {
                    return J::Obj(vec![("ty", num(self.ty(t))), ("other", s("union const"))]);
                }
            }
            if let Some(d) = tcx.try_destructure_mir_constant_for_user_output(val, t) {
                let fields: Vec<J> = d.fields.iter().map(|(v, ft)| self.const_value(*v, *ft)).collect();
                return J::Obj(vec![
                    ("ty", num(self.ty(t))),
                    ("adt_const", J::Obj(vec![
                        ("variant", num(d.variant.map(|v| v.index()).unwrap_or(0))),
                        ("fields", J::Arr(fields)),
                    ])),
                ]);
            }
        }
        match val {
            ConstValue::Scalar(Scalar::Int(si)) => self.scalar_bits(si, t),
            ConstValue::Scalar(Scalar::Ptr(ptr, _)) => {
                let mut o = vec![("ty", num(self.ty(t))), ("ptr", s(format!("{:?}", val)))];
                let (prov, _off) = ptr.into_raw_parts();
                if let rustc_middle::mir::interpret::GlobalAlloc::Static(d) = tcx.global_alloc(prov.alloc_id()) {
                    o.push(("static", s(self.key(d))));
                }
                J::Obj(o)
            }
            ConstValue::ZeroSized => J::Obj(vec![("ty", num(self.ty(t))), ("zst", J::Bool(true))]),
            ConstValue::Slice { .. } => match val.try_get_slice_bytes_for_diagnostics(tcx) {
                Some(b) => J::Obj(vec![
                    ("ty", num(self.ty(t))),
                    ("bytes", J::Arr(b.iter().map(|x| num(*x)).collect())),
                ]),
                None => J::Obj(vec![("ty", num(self.ty(t))), ("other", s("slice"))]),
            },
            ConstValue::Indirect { alloc_id, offset } => {
                // arrays of integers: read raw bytes
                let mut out = None;
                if let ty::Array(elem, len) = t.kind() {
                    if let (Some(n), true) = (
                        len.try_to_target_usize(tcx),
                        matches!(elem.kind(), ty::Uint(ty::UintTy::U8) | ty::Int(ty::IntTy::I8)),
                    ) {
                        if let rustc_middle::mir::interpret::GlobalAlloc::Memory(a) =
                            tcx.global_alloc(alloc_id)
                        {
                            let a = a.inner();
                            let start = offset.bytes() as usize;
                            let end = start + n as usize;
                            if end <= a.len() {
                                let b = a.inspect_with_uninit_and_ptr_outside_interpreter(start..end);
                                out = Some(J::Arr(b.iter().map(|x| num(*x)).collect()));
                            }
                        }
                    }
                }
                // arrays of wider unsigned integers (little-endian target): decode the elements
                let mut ints = None;
                if out.is_none() {
                    if let ty::Array(elem, len) = t.kind() {
                        let w = match elem.kind() {
                            ty::Uint(ty::UintTy::U16) => 2usize,
                            ty::Uint(ty::UintTy::U32) => 4,
                            ty::Uint(ty::UintTy::U64) | ty::Uint(ty::UintTy::Usize) => 8,
                            _ => 0,
                        };
                        if let (Some(n), true) = (len.try_to_target_usize(tcx), w > 0) {
                            if let rustc_middle::mir::interpret::GlobalAlloc::Memory(a) = tcx.global_alloc(alloc_id) {
                                let a = a.inner();
                                let start = offset.bytes() as usize;
                                let end = start + (n as usize) * w;
                                if end <= a.len() && n <= 64 {
                                    let b = a.inspect_with_uninit_and_ptr_outside_interpreter(start..end);
                                    let mut v = vec![];
                                    for i in 0..(n as usize) {
                                        let mut x: u128 = 0;
                                        for k in 0..w {
                                            x |= (b[i * w + k] as u128) << (8 * k);
                                        }
                                        v.push(num(x));
                                    }
                                    ints = Some(J::Arr(v));
                                }
                            }
                        }
                    }
                }
                // a `&str` / `&[u8]` stored inside a larger constant (a table of names): follow the fat pointer
                if out.is_none() && ints.is_none() {
                    if let ty::Ref(_, inner, _) = t.kind() {
                        let is_bytes = inner.is_str()
                            || matches!(inner.kind(), ty::Slice(e) if matches!(e.kind(), ty::Uint(ty::UintTy::U8)));
                        if is_bytes {
                            if let rustc_middle::mir::interpret::GlobalAlloc::Memory(a) = tcx.global_alloc(alloc_id) {
                                let a = a.inner();
                                let ps = tcx.data_layout.pointer_size();
                                let start = offset.bytes() as usize;
                                let psz = ps.bytes() as usize;
                                if start + 2 * psz <= a.len() {
                                    // length word (little-endian target)
                                    let lb = a.inspect_with_uninit_and_ptr_outside_interpreter(start + psz..start + 2 * psz);
                                    let mut n: usize = 0;
                                    for k in 0..psz {
                                        n |= (lb[k] as usize) << (8 * k);
                                    }
                                    // pointer: provenance names the target allocation, the stored bytes its offset
                                    let pb = a.inspect_with_uninit_and_ptr_outside_interpreter(start..start + psz);
                                    let mut poff: usize = 0;
                                    for k in 0..psz {
                                        poff |= (pb[k] as usize) << (8 * k);
                                    }
                                    if let Some(prov) = a.provenance().get_ptr(offset) {
                                        if let rustc_middle::mir::interpret::GlobalAlloc::Memory(ta) = tcx.global_alloc(prov.alloc_id()) {
                                            let ta = ta.inner();
                                            if poff + n <= ta.len() && n <= 4096 {
                                                let b = ta.inspect_with_uninit_and_ptr_outside_interpreter(poff..poff + n);
                                                return J::Obj(vec![
                                                    ("ty", num(self.ty(t))),
                                                    ("bytes", J::Arr(b.iter().map(|x| num(*x)).collect())),
                                                ]);
                                            }
                                        }
                                    }
                                }
                            }
                        }
                    }
                }
                match (out, ints) {
                    (Some(b), _) => J::Obj(vec![("ty", num(self.ty(t))), ("array_bytes", b)]),
                    (None, Some(v)) => J::Obj(vec![("ty", num(self.ty(t))), ("array_bytes", v)]),
                    (None, None) => J::Obj(vec![("ty", num(self.ty(t))), ("other", s("indirect"))]),
                }
            }
        }
    }

    fn konst(&mut self, c: &mir::ConstOperand<'tcx>, env: TypingEnv<'tcx>) -> J {
        let tcx = self.tcx;
        let t = c.const_.ty();
        if let ty::FnDef(d, args) = *t.kind() {
            return J::Obj(vec![("fn", self.fn_ref(d, args, env))]);
        }
        if let mir::Const::Unevaluated(uv, _) = c.const_ {
            if let Some(p) = uv.promoted {
                return J::Obj(vec![
                    ("ty", num(self.ty(t))),
                    ("promoted", num(p.index())),
                    ("def", s(self.key(uv.def))),
                ]);
            }
        }
        if let mir::Const::Ty(_, ct) = c.const_ {
            if let ty::ConstKind::Param(p) = ct.kind() {
                // a const generic parameter used as a value: resolved per instance by the engine
                return J::Obj(vec![("ty", num(self.ty(t))), ("const_param", s(p.name.as_str()))]);
            }
        }
        match c.const_.eval(tcx, env, c.span) {
            Ok(val) => self.const_value(val, t),
            Err(_) => {
                if let mir::Const::Unevaluated(uv, _) = c.const_ {
                    // (a trait's associated const without a default, used in a default method, has no body)
                    let has_body = uv.def.as_local().map_or(true, |l| tcx.hir_maybe_body_owned_by(l).is_some());
                    if has_body {
                        if let Ok(val) = tcx.const_eval_poly(uv.def) {
                            return self.const_value(val, t);
                        }
                    }
                }
                if let mir::Const::Unevaluated(uv, _) = c.const_ {
                    // `Self::CONST` inside a trait's default method: resolved per implementing type by the engine
                    if matches!(tcx.def_kind(uv.def), DefKind::AssocConst { .. }) {
                        if let Some(tr) = tcx.trait_of_assoc(uv.def) {
                            return J::Obj(vec![
                                ("ty", num(self.ty(t))),
                                ("assoc_const", s(tcx.item_name(uv.def).as_str())),
                                ("trait", s(self.name(tr))),
                            ]);
                        }
                    }
                }
                J::Obj(vec![("ty", num(self.ty(t))), ("other", s(format!("{:?}", c.const_)))])
            }
        }
    }

    fn operand(&mut self, o: &mir::Operand<'tcx>, env: TypingEnv<'tcx>) -> J {
        match o {
            mir::Operand::Copy(p) => J::Obj(vec![("copy", self.place(p))]),
            mir::Operand::Move(p) => J::Obj(vec![("move", self.place(p))]),
            mir::Operand::Constant(c) => J::Obj(vec![("const", self.konst(c, env))]),
            other => J::Obj(vec![("runtime_checks", s(format!("{:?}", other)))]),
        }
    }

    fn rvalue(&mut self, r: &mir::Rvalue<'tcx>, env: TypingEnv<'tcx>) -> J {
        let tcx = self.tcx;
        match r {
            mir::Rvalue::Use(o, _) => J::Obj(vec![("k", s("use")), ("op", self.operand(o, env))]),
            mir::Rvalue::Repeat(o, n) => J::Obj(vec![
                ("k", s("repeat")),
                ("op", self.operand(o, env)),
                ("n", n.try_to_target_usize(tcx).map(num).unwrap_or(J::Null)),
            ]),
            mir::Rvalue::Ref(_, bk, p) => J::Obj(vec![
                ("k", s("ref")),
                ("mut", J::Bool(matches!(bk, mir::BorrowKind::Mut { .. }))),
                ("place", self.place(p)),
            ]),
            mir::Rvalue::RawPtr(kind, p) => J::Obj(vec![
                ("k", s("rawptr")),
                ("mut", J::Bool(matches!(kind, mir::RawPtrKind::Mut))),
                ("place", self.place(p)),
            ]),
            mir::Rvalue::Cast(kind, o, t) => J::Obj(vec![
                ("k", s("cast")),
                ("kind", s(format!("{:?}", kind))),
                ("op", self.operand(o, env)),
                ("ty", num(self.ty(*t))),
            ]),
            mir::Rvalue::BinaryOp(op, lr) => J::Obj(vec![
                ("k", s("bin")),
                ("op", s(format!("{:?}", op))),
                ("l", self.operand(&lr.0, env)),
                ("r", self.operand(&lr.1, env)),
            ]),
            mir::Rvalue::UnaryOp(op, o) => J::Obj(vec![
                ("k", s("un")),
                ("op", s(format!("{:?}", op))),
                ("x", self.operand(o, env)),
            ]),
            mir::Rvalue::Discriminant(p) => {
                J::Obj(vec![("k", s("discr")), ("place", self.place(p))])
            }
            mir::Rvalue::Aggregate(kind, ops) => {
                let opsj: Vec<J> = ops.iter().map(|o| self.operand(o, env)).collect();
                let kj = match &**kind {
                    mir::AggregateKind::Array(t) => {
                        J::Obj(vec![("agg", s("array")), ("of", num(self.ty(*t)))])
                    }
                    mir::AggregateKind::Tuple => J::Obj(vec![("agg", s("tuple"))]),
                    mir::AggregateKind::Adt(d, v, args, _, active) => {
                        let adt = tcx.adt_def(*d);
                        let vd = adt.variant(*v);
                        J::Obj(vec![
                            ("agg", s("adt")),
                            ("name", s(self.name(*d))),
                            ("variant", num(v.index())),
                            ("vname", s(vd.name.as_str())),
                            ("args", self.generic_args(args)),
                            ("union_field", active.map(|f| num(f.index())).unwrap_or(J::Null)),
                        ])
                    }
                    mir::AggregateKind::Closure(d, _) => J::Obj(vec![
                        ("agg", s("closure")),
                        ("key", s(self.key(*d))),
                    ]),
                    mir::AggregateKind::RawPtr(t, m) => J::Obj(vec![
                        ("agg", s("rawptr")),
                        ("to", num(self.ty(*t))),
                        ("mut", J::Bool(m.is_mut())),
                    ]),
                    other => J::Obj(vec![("agg", s("other")), ("s", s(format!("{:?}", other)))]),
                };
                J::Obj(vec![("k", s("agg")), ("kind", kj), ("ops", J::Arr(opsj))])
            }
            mir::Rvalue::CopyForDeref(p) => J::Obj(vec![
                ("k", s("use")),
                ("op", J::Obj(vec![("copy", self.place(p))])),
            ]),
            mir::Rvalue::ThreadLocalRef(d) => {
                J::Obj(vec![("k", s("tls")), ("key", s(self.key(*d)))])
            }
            other => J::Obj(vec![("k", s("other")), ("s", s(format!("{:?}", other)))]),
        }
    }

    fn body(&mut self, body: &mir::Body<'tcx>, env: TypingEnv<'tcx>) -> J {
        let tcx = self.tcx;
        let mut locals = vec![];
        for d in body.local_decls.iter() {
            locals.push(num(self.ty(d.ty)));
        }
        let mut names = vec![];
        for v in body.var_debug_info.iter() {
            if let mir::VarDebugInfoContents::Place(p) = &v.value {
                names.push(J::Obj(vec![
                    ("name", s(v.name.as_str())),
                    ("place", self.place(p)),
                    ("arg", v.argument_index.map(num).unwrap_or(J::Null)),
                ]));
            }
        }
        let mut blocks = vec![];
        for (_bb, data) in body.basic_blocks.iter_enumerated() {
            let mut stmts = vec![];
            for st in data.statements.iter() {
                let ln = self.line(st.source_info.span);
                match &st.kind {
                    mir::StatementKind::Assign(b) => {
                        let (p, r) = &**b;
                        stmts.push(J::Obj(vec![
                            ("s", s("assign")),
                            ("place", self.place(p)),
                            ("rv", self.rvalue(r, env)),
                            ("ln", ln),
                        ]));
                    }
                    mir::StatementKind::SetDiscriminant { place, variant_index } => {
                        stmts.push(J::Obj(vec![
                            ("s", s("setdiscr")),
                            ("place", self.place(place)),
                            ("variant", num(variant_index.index())),
                            ("ln", ln),
                        ]));
                    }
                    mir::StatementKind::Intrinsic(i) => match &**i {
                        mir::NonDivergingIntrinsic::Assume(o) => stmts.push(J::Obj(vec![
                            ("s", s("assume")),
                            ("op", self.operand(o, env)),
                            ("ln", ln),
                        ])),
                        mir::NonDivergingIntrinsic::CopyNonOverlapping(c) => {
                            stmts.push(J::Obj(vec![
                                ("s", s("copy_nonoverlapping")),
                                ("src", self.operand(&c.src, env)),
                                ("dst", self.operand(&c.dst, env)),
                                ("count", self.operand(&c.count, env)),
                                ("ln", ln),
                            ]))
                        }
                    },
                    _ => {}
                }
            }
            let term = data.terminator();
            let ln = self.line(term.source_info.span);
            let exp = term.source_info.span.from_expansion();
            let tj = match &term.kind {
                mir::TerminatorKind::Goto { target } => {
                    J::Obj(vec![("t", s("goto")), ("target", num(target.index()))])
                }
                mir::TerminatorKind::SwitchInt { discr, targets } => {
                    let dty = discr.ty(&body.local_decls, tcx);
                    let mut vals = vec![];
                    for (v, bb) in targets.iter() {
                        vals.push(J::Arr(vec![num(v), num(bb.index())]));
                    }
                    J::Obj(vec![
                        ("t", s("switch")),
                        ("discr", self.operand(discr, env)),
                        ("ty", num(self.ty(dty))),
                        ("targets", J::Arr(vals)),
                        ("otherwise", num(targets.otherwise().index())),
                    ])
                }
                mir::TerminatorKind::Return => J::Obj(vec![("t", s("return"))]),
                mir::TerminatorKind::Unreachable => J::Obj(vec![("t", s("unreachable"))]),
                mir::TerminatorKind::UnwindResume => J::Obj(vec![("t", s("resume"))]),
                mir::TerminatorKind::UnwindTerminate(_) => J::Obj(vec![("t", s("abort"))]),
                mir::TerminatorKind::Drop { place, target, .. } => J::Obj(vec![
                    ("t", s("drop")),
                    ("place", self.place(place)),
                    ("target", num(target.index())),
                ]),
                mir::TerminatorKind::Call { func, args, destination, target, fn_span, .. } => {
                    let fj = match func {
                        mir::Operand::Constant(c) => {
                            if let ty::FnDef(d, ga) = *c.const_.ty().kind() {
                                self.fn_ref(d, ga, env)
                            } else {
                                J::Obj(vec![("indirect", self.operand(func, env))])
                            }
                        }
                        _ => J::Obj(vec![("indirect", self.operand(func, env))]),
                    };
                    let aj: Vec<J> = args.iter().map(|a| self.operand(&a.node, env)).collect();
                    J::Obj(vec![
                        ("t", s("call")),
                        ("func", fj),
                        ("args", J::Arr(aj)),
                        ("dest", self.place(destination)),
                        ("target", target.map(|t| num(t.index())).unwrap_or(J::Null)),
                        ("fn_exp", J::Bool(fn_span.from_expansion())),
                    ])
                }
                mir::TerminatorKind::Assert { cond, expected, msg, target, .. } => {
                    let mj = match &**msg {
                        mir::AssertKind::BoundsCheck { len, index } => J::Obj(vec![
                            ("kind", s("BoundsCheck")),
                            ("len", self.operand(len, env)),
                            ("index", self.operand(index, env)),
                        ]),
                        mir::AssertKind::Overflow(op, l, r) => J::Obj(vec![
                            ("kind", s("Overflow")),
                            ("op", s(format!("{:?}", op))),
                            ("l", self.operand(l, env)),
                            ("r", self.operand(r, env)),
                        ]),
                        mir::AssertKind::OverflowNeg(o) => {
                            J::Obj(vec![("kind", s("OverflowNeg")), ("x", self.operand(o, env))])
                        }
                        mir::AssertKind::DivisionByZero(o) => J::Obj(vec![
                            ("kind", s("DivisionByZero")),
                            ("x", self.operand(o, env)),
                        ]),
                        mir::AssertKind::RemainderByZero(o) => J::Obj(vec![
                            ("kind", s("RemainderByZero")),
                            ("x", self.operand(o, env)),
                        ]),
                        other => J::Obj(vec![
                            ("kind", s("Other")),
                            ("s", s(format!("{:?}", other))),
                        ]),
                    };
                    J::Obj(vec![
                        ("t", s("assert")),
                        ("cond", self.operand(cond, env)),
                        ("expected", J::Bool(*expected)),
                        ("msg", mj),
                        ("target", num(target.index())),
                    ])
                }
                other => J::Obj(vec![("t", s("other")), ("s", s(format!("{:?}", other)))]),
            };
            let mut tj = tj;
            if let J::Obj(v) = &mut tj {
                v.push(("ln", ln));
                v.push(("exp", J::Bool(exp)));
            }
            blocks.push(J::Obj(vec![
                ("stmts", J::Arr(stmts)),
                ("term", tj),
                ("cleanup", J::Bool(data.is_cleanup)),
            ]));
        }
        J::Obj(vec![
            ("arg_count", num(body.arg_count)),
            ("locals", J::Arr(locals)),
            ("names", J::Arr(names)),
            ("blocks", J::Arr(blocks)),
        ])
    }

    // ---------------------------------------------------------- HIR (statics)

    fn hir_expr(&mut self, owner: LocalDefId, e: &hir::Expr<'tcx>) -> J {
        let tcx = self.tcx;
        match &e.kind {
            hir::ExprKind::Struct(qpath, fields, _) => {
                let res = tcx.typeck(owner).qpath_res(qpath, e.hir_id);
                let mut fs = vec![];
                for f in fields.iter() {
                    fs.push(J::Arr(vec![s(f.ident.name.as_str()), self.hir_expr(owner, f.expr)]));
                }
                J::Obj(vec![("h", s("struct")), ("res", self.res(res)), ("fields", J::Arr(fs))])
            }
            hir::ExprKind::AddrOf(_, _, inner) => {
                J::Obj(vec![("h", s("addr_of")), ("e", self.hir_expr(owner, inner))])
            }
            hir::ExprKind::Array(es) => J::Obj(vec![
                ("h", s("array")),
                ("es", J::Arr(es.iter().map(|x| self.hir_expr(owner, x)).collect())),
            ]),
            hir::ExprKind::Tup(es) => J::Obj(vec![
                ("h", s("tup")),
                ("es", J::Arr(es.iter().map(|x| self.hir_expr(owner, x)).collect())),
            ]),
            hir::ExprKind::Lit(lit) => match lit.node {
                rustc_ast::LitKind::Int(v, _) => {
                    J::Obj(vec![("h", s("int")), ("v", num(v.get()))])
                }
                rustc_ast::LitKind::Bool(b) => J::Obj(vec![("h", s("bool")), ("v", J::Bool(b))]),
                rustc_ast::LitKind::Str(sym, _) => {
                    J::Obj(vec![("h", s("str")), ("v", s(sym.as_str()))])
                }
                _ => J::Obj(vec![("h", s("lit")), ("s", s(format!("{:?}", lit.node)))]),
            },
            hir::ExprKind::Path(qpath) => {
                let res = tcx.typeck(owner).qpath_res(qpath, e.hir_id);
                J::Obj(vec![("h", s("path")), ("res", self.res(res))])
            }
            hir::ExprKind::Call(f, args) => J::Obj(vec![
                ("h", s("call")),
                ("f", self.hir_expr(owner, f)),
                ("args", J::Arr(args.iter().map(|x| self.hir_expr(owner, x)).collect())),
            ]),
            hir::ExprKind::Cast(inner, _) => {
                J::Obj(vec![("h", s("cast")), ("e", self.hir_expr(owner, inner))])
            }
            hir::ExprKind::Block(b, _) => match (b.stmts.len(), b.expr) {
                (0, Some(inner)) => self.hir_expr(owner, inner),
                _ => J::Obj(vec![("h", s("block"))]),
            },
            hir::ExprKind::DropTemps(inner) => self.hir_expr(owner, inner),
            _ => J::Obj(vec![("h", s("other"))]),
        }
    }

    fn res(&mut self, r: Res) -> J {
        let tcx = self.tcx;
        match r {
            Res::Def(kind, d) => {
                let mut o = vec![
                    ("kind", s(format!("{:?}", kind))),
                    ("name", s(self.name(d))),
                    ("key", s(self.key(d))),
                ];
                if let DefKind::Ctor(..) = kind {
                    let parent = tcx.parent(d);
                    o.push(("ctor_of", s(self.name(parent))));
                    o.push(("ctor_item", s(tcx.item_name(parent).as_str())));
                }
                J::Obj(o)
            }
            other => J::Obj(vec![("kind", s(format!("{:?}", other)))]),
        }
    }
}

// ---------------------------------------------------------------- driver

struct Cb;

impl rustc_driver::Callbacks for Cb {
    fn after_analysis<'tcx>(
        &mut self,
        _c: &rustc_interface::interface::Compiler,
        tcx: TyCtxt<'tcx>,
    ) -> Compilation {
        let want = std::env::var("L2TP_FACTS_CRATE").unwrap_or_else(|_| "rl2tp".to_string());
        let out = match std::env::var("L2TP_FACTS_OUT") {
            Ok(o) => o,
            Err(_) => return Compilation::Continue,
        };
        if tcx.crate_name(LOCAL_CRATE).as_str() != want {
            return Compilation::Continue;
        }
        let mut d = Dumper { tcx, ty_ids: HashMap::new(), tys: vec![] };
        let mut adts = vec![];
        let mut consts = vec![];
        let mut statics = vec![];
        let mut fns = vec![];
        let mut impls = vec![];
        let mut traits = vec![];

        let eff = tcx.effective_visibilities(());

        for ld in tcx.iter_local_def_id() {
            let did = ld.to_def_id();
            let kind = tcx.def_kind(did);
            match kind {
                DefKind::Struct | DefKind::Enum | DefKind::Union => {
                    let adt = tcx.adt_def(did);
                    let mut vs = vec![];
                    if adt.is_enum() {
                        for (vi, discr) in adt.discriminants(tcx) {
                            let v = adt.variant(vi);
                            let fields: Vec<J> = v
                                .fields
                                .iter()
                                .map(|f| {
                                    let ft = tcx.type_of(f.did).instantiate_identity().skip_norm_wip();
                                    J::Obj(vec![
                                        ("name", s(f.name.as_str())),
                                        ("ty", num(d.ty(ft))),
                                    ])
                                })
                                .collect();
                            vs.push(J::Obj(vec![
                                ("name", s(v.name.as_str())),
                                ("idx", num(vi.index())),
                                ("discr", num(discr.val)),
                                ("fields", J::Arr(fields)),
                            ]));
                        }
                    } else {
                        for (vi, v) in adt.variants().iter_enumerated() {
                            let fields: Vec<J> = v
                                .fields
                                .iter()
                                .map(|f| {
                                    let ft = tcx.type_of(f.did).instantiate_identity().skip_norm_wip();
                                    J::Obj(vec![
                                        ("name", s(f.name.as_str())),
                                        ("ty", num(d.ty(ft))),
                                        ("pub", J::Bool(tcx.visibility(f.did).is_public())),
                                    ])
                                })
                                .collect();
                            vs.push(J::Obj(vec![
                                ("name", s(v.name.as_str())),
                                ("idx", num(vi.index())),
                                ("discr", J::Null),
                                ("fields", J::Arr(fields)),
                            ]));
                        }
                    }
                    let repr = adt.repr();
                    adts.push(J::Obj(vec![
                        ("name", s(d.name(did))),
                        ("key", s(d.key(did))),
                        ("kind", s(format!("{:?}", adt.adt_kind()))),
                        ("repr_int", repr.int.map(|i| s(format!("{:?}", i))).unwrap_or(J::Null)),
                        ("variants", J::Arr(vs)),
                        ("pub", J::Bool(eff.is_reachable(ld))),
                        ("ln", d.line(tcx.def_span(did))),
                    ]));
                }
                DefKind::Const { .. } | DefKind::AssocConst { .. } => {
                    let t = tcx.type_of(did).instantiate_identity().skip_norm_wip();
                    // a trait's associated const without a default has no body to evaluate
                    let v = if tcx.hir_maybe_body_owned_by(ld).is_none() {
                        J::Null
                    } else {
                        match tcx.const_eval_poly(did) {
                            Ok(val) => d.const_value(val, t),
                            Err(_) => J::Null,
                        }
                    };
                    let mut o = vec![
                        ("name", s(d.name(did))),
                        ("key", s(d.key(did))),
                        ("item", s(tcx.item_name(did).as_str())),
                        ("value", v),
                    ];
                    if let Some(imp) = tcx.impl_of_assoc(did) {
                        let st = tcx.type_of(imp).instantiate_identity().skip_norm_wip();
                        o.push(("self_ty", num(d.ty(st))));
                    }
                    consts.push(J::Obj(o));
                }
                DefKind::Static { mutability, .. } => {
                    let t = tcx.type_of(did).instantiate_identity().skip_norm_wip();
                    let env = TypingEnv::post_analysis(tcx, did);
                    let freeze = t.is_freeze(tcx, env);
                    let init = match tcx.hir_maybe_body_owned_by(ld) {
                        Some(b) => d.hir_expr(ld, b.value),
                        None => J::Null,
                    };
                    statics.push(J::Obj(vec![
                        ("name", s(d.name(did))),
                        ("key", s(d.key(did))),
                        ("ty", num(d.ty(t))),
                        ("mut", J::Bool(mutability.is_mut())),
                        ("freeze", J::Bool(freeze)),
                        ("thread_local", J::Bool(tcx.is_thread_local_static(did))),
                        ("init", init),
                        ("ln", d.line(tcx.def_span(did))),
                    ]));
                }
                DefKind::Impl { .. } => {
                    let st = tcx.type_of(did).instantiate_identity().skip_norm_wip();
                    let tr = tcx.impl_opt_trait_ref(did).map(|t| t.skip_binder());
                    let items: Vec<J> = tcx
                        .associated_items(did)
                        .in_definition_order()
                        .filter_map(|it| {
                            it.opt_name().map(|n| {
                                J::Obj(vec![
                                    ("name", s(n.as_str())),
                                    ("key", s(d.key(it.def_id))),
                                    ("kind", s(format!("{:?}", it.kind.as_def_kind()))),
                                ])
                            })
                        })
                        .collect();
                    impls.push(J::Obj(vec![
                        ("key", s(d.key(did))),
                        ("self_ty", num(d.ty(st))),
                        (
                            "trait",
                            tr.map(|t| s(d.name(t.def_id))).unwrap_or(J::Null),
                        ),
                        (
                            "trait_args",
                            tr.map(|t| d.generic_args(t.args)).unwrap_or(J::Null),
                        ),
                        ("items", J::Arr(items)),
                        ("exp", J::Bool(tcx.def_span(did).from_expansion())),
                    ]));
                }
                DefKind::Trait => {
                    let items: Vec<J> = tcx
                        .associated_items(did)
                        .in_definition_order()
                        .filter_map(|it| {
                            it.opt_name().map(|n| {
                                let mut o = vec![
                                    ("name", s(n.as_str())),
                                    ("key", s(d.key(it.def_id))),
                                    ("kind", s(format!("{:?}", it.kind.as_def_kind()))),
                                ];
                                if matches!(it.kind, ty::AssocKind::Fn { .. }) {
                                    let sig = tcx.fn_sig(it.def_id).skip_binder();
                                    o.push(("unsafe", J::Bool(sig.safety().is_unsafe())));
                                }
                                J::Obj(o)
                            })
                        })
                        .collect();
                    traits.push(J::Obj(vec![
                        ("name", s(d.name(did))),
                        ("key", s(d.key(did))),
                        ("items", J::Arr(items)),
                        ("pub", J::Bool(eff.is_reachable(ld))),
                    ]));
                }
                _ => {}
            }
        }

        for &ld in tcx.mir_keys(()).iter() {
            let did = ld.to_def_id();
            let kind = tcx.def_kind(did);
            if !matches!(kind, DefKind::Fn | DefKind::AssocFn | DefKind::Closure) {
                continue;
            }
            if !tcx.is_mir_available(did) {
                continue;
            }
            let env = TypingEnv::post_analysis(tcx, did);
            let body = tcx.optimized_mir(did);
            let bj = d.body(body, env);
            let proms: Vec<J> =
                tcx.promoted_mir(did).iter().map(|b| d.body(b, env)).collect();
            let mut o = vec![
                ("key", s(d.key(did))),
                ("name", s(d.name(did))),
                ("kind", s(format!("{:?}", kind))),
                ("ln", d.line(tcx.def_span(did))),
                ("exp", J::Bool(tcx.def_span(did).from_expansion())),
            ];
            if matches!(kind, DefKind::Fn | DefKind::AssocFn) {
                let sig = tcx.fn_sig(did).skip_binder();
                o.push(("unsafe", J::Bool(sig.safety().is_unsafe())));
                o.push(("vis_pub", J::Bool(tcx.visibility(did).is_public())));
                o.push(("reachable", J::Bool(eff.is_reachable(ld))));
                o.push(("item", s(tcx.item_name(did).as_str())));
                let gens = tcx.generics_of(did);
                let mut gn = vec![];
                let mut g = Some(gens);
                let mut chain = vec![];
                while let Some(x) = g {
                    chain.push(x);
                    g = x.parent.map(|p| tcx.generics_of(p));
                }
                for x in chain.iter().rev() {
                    for p in x.own_params.iter() {
                        gn.push(s(p.name.as_str()));
                    }
                }
                o.push(("generics", J::Arr(gn)));
            } else {
                o.push(("parent", s(d.key(tcx.parent(did)))));
            }
            if let Some(ai) = tcx.opt_associated_item(did) {
                match ai.container {
                    ty::AssocContainer::Trait => {
                        o.push(("container", s("trait")));
                        o.push(("trait", s(d.name(tcx.parent(did)))));
                    }
                    ty::AssocContainer::InherentImpl => {
                        o.push(("container", s("inherent")));
                        let imp = tcx.parent(did);
                        let st = tcx.type_of(imp).instantiate_identity().skip_norm_wip();
                        o.push(("self_ty", num(d.ty(st))));
                    }
                    ty::AssocContainer::TraitImpl(t) => {
                        o.push(("container", s("trait_impl")));
                        let imp = tcx.parent(did);
                        let st = tcx.type_of(imp).instantiate_identity().skip_norm_wip();
                        o.push(("self_ty", num(d.ty(st))));
                        o.push(("trait", s(d.name(tcx.impl_trait_id(imp)))));
                        if let Ok(ti) = t {
                            o.push(("trait_item", s(d.key(ti))));
                        }
                    }
                }
            }
            // names of the generic parameters in argument order (lifetimes left out, as in generic argument lists)
            {
                let g = tcx.generics_of(did);
                let mut names = vec![];
                for i in 0..g.count() {
                    let p = g.param_at(i, tcx);
                    if !matches!(p.kind, ty::GenericParamDefKind::Lifetime) {
                        names.push(s(p.name.as_str()));
                    }
                }
                o.push(("generics", J::Arr(names)));
            }
            o.push(("body", bj));
            o.push(("promoted", J::Arr(proms)));
            fns.push(J::Obj(o));
        }

        let root = J::Obj(vec![
            ("crate", s(want)),
            ("nonce", s(std::env::var("L2TP_FACTS_NONCE").unwrap_or_default())),
            ("ptr_bits", num(tcx.data_layout.pointer_size().bits())),
            ("overflow_checks", J::Bool(tcx.sess.overflow_checks())),
            ("debug_assertions", J::Bool(tcx.sess.opts.debug_assertions)),
            ("types", J::Arr(d.tys.clone())),
            ("adts", J::Arr(adts)),
            ("consts", J::Arr(consts)),
            ("statics", J::Arr(statics)),
            ("traits", J::Arr(traits)),
            ("impls", J::Arr(impls)),
            ("fns", J::Arr(fns)),
        ]);
        // types were interned while building the tree above; re-take the final table
        let root = match root {
            J::Obj(mut v) => {
                for (k, val) in v.iter_mut() {
                    if *k == "types" {
                        *val = J::Arr(d.tys.clone());
                    }
                }
                J::Obj(v)
            }
            x => x,
        };
        let mut outs = String::with_capacity(1 << 24);
        ser(&mut outs, &root);
        std::fs::write(&out, outs).expect("write facts");
        Compilation::Continue
    }
}

fn main() {
    let mut args: Vec<String> = std::env::args().collect();
    // RUSTC_WORKSPACE_WRAPPER: argv[1] is the path of the real rustc
    if args.len() > 1 && (args[1].ends_with("rustc") || args[1].contains("/rustc")) {
        args.remove(1);
    }
    rustc_driver::run_compiler(&args, &mut Cb);
}
